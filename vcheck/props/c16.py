"""C16 — exactly the selected files are processed, each once (kernel scope: the in-repo selection logic; the `ignore` crate's walker,
its gitignore matcher and globset are the environment, under their documented contracts).

S  walker set-up in format(): every command-line path is added to the walker; hidden(!allow_hidden); `.styluaignore` is the custom ignore
   file name; the default glob is used iff no --glob is given (otherwise the globs become the walker's overrides)
E  one entry of the walk, from an arbitrary state of the loop (the walker yields one non-stdin entry): with symbolic facts
   seen / is_file / explicitly-named / default-glob-match / ignored and flags respect_ignores / use_default_glob, the file is handed to
   the pool  iff  not seen, a file, and
       named explicitly without --respect-ignores: nothing else matters
       named explicitly with --respect-ignores:    (no default glob or it matches) and not ignored by .styluaignore
       found by the traversal:                      (no default glob or it matches)
   and its path is recorded in seen_files exactly when it was not seen; nothing else is dispatched
I  path_is_stylua_ignored(path) asks the matcher get_ignore returns for this path's own directory about this path (nothing cached)
H  is_explicitly_provided / should_respect_ignores are what their names say (path is one of opt.files; !explicit || respect_ignores)
"""
import re, z3

from .. import clihooks, clireplay, common
from ..common import Inconclusive
from ..mirsym import Agg, Lazy, Ref, RefV, Str, Sym, State, Frame, Infeasible, _Done
from ..session import find_calls
from ..summaries import canon, deref_val, opt_some, opt_none


NORMALISERS = ("strip_prefix", "components", "canonicalize", "normalize", "normalise", "absolutize", "clean")


def run_from_block(ex, fn, bb):
    """execute `fn` from basic block `bb` with every local symbolic (one arbitrary state of the loop)"""
    st = State()
    fid = next(ex.fid_counter)
    fr = Frame(fn, fid, bb=bb)
    for loc, ty in fn.locals.items():
        st.store[(fid, loc)] = ex.fresh_lazy(ty, loc)
    st.stack.append(fr)
    work, outs = [st], []
    while work:
        s = work.pop()
        if isinstance(s, _Done):
            outs.append(s.out)
            continue
        try:
            r = ex.step_path(s, work, 1)
        except Infeasible:
            continue
        if r is not None:
            outs.append(r)
    return outs, fid


def entry_step(ses, rep):
    flagged = []
    funcs = ses.mir("bin", "default")
    # small in-crate helpers are part of the loop body (hooks below take precedence over inlining)
    ex = ses.executor("bin", "default", inline=lambda n_, f: f.name in ("should_respect_ignores",) or
                      (clihooks.inline_cli_helpers(n_, f) and f.name not in ("is_explicitly_provided", "path_is_stylua_ignored", "format_file", "format_string")))
    T = ex.enums
    fn = ses.need(ex, "format")
    nxt = [bb for bb, sts in fn.blocks.items() for s in sts if s[0] == "call" and canon(s[2]).endswith("Walk as Iterator>::next")]
    if len(nxt) != 1:
        raise Inconclusive("format(): the walker loop was not found")
    facts = {k: z3.Bool(k) for k in ("seen", "is_file", "explicit", "glob_match", "ignored")}
    entry = ex.fresh_lazy("ignore::DirEntry", "entry")
    path = ex.fresh_lazy("PathBuf", "entry_path")

    def h(ex_, st, callee, args, dty):
        c = canon(callee)
        last = c.split("::")[-1]
        if c.endswith("Walk as Iterator>::next"):
            k = st.aux.get("walk", 0)
            st.aux["walk"] = k + 1
            return opt_some(dty, Agg("Result<DirEntry, ignore::Error>", "Ok", [entry])) if k == 0 else opt_none(dty)
        if c.endswith("DirEntry::is_stdin"):
            return Sym(z3.BoolVal(False), "bool")
        if c.endswith("DirEntry::path"):
            return RefV(path)
        if last in ("to_owned", "clone", "as_path", "deref", "as_ref", "borrow") and args:
            v = deref_val(ex_, st, args[0])
            if v is path:
                return path if last in ("to_owned", "clone") else RefV(path)
        if last == "contains" and "HashSet" in callee:
            return Sym(facts["seen"], "bool")
        if last == "insert" and "HashSet" in callee:
            st.trace.append(("effect", "seen_files.insert", [args[1]], None))
            return Sym(z3.Not(facts["seen"]), "bool")
        if c.endswith("Path::is_file"):
            return Sym(facts["is_file"], "bool")
        if last == "is_explicitly_provided":
            return Sym(facts["explicit"], "bool")
        if last == "is_match" and "GlobSet" in callee:
            return Sym(facts["glob_match"], "bool")
        if last == "path_is_stylua_ignored":
            st.trace.append(("effect", "path_is_stylua_ignored", list(args), None))
            return [(z3.BoolVal(True), Agg(dty, "Ok", [Sym(facts["ignored"], "bool")])), (z3.BoolVal(True), Agg(dty, "Err", [ex_.fresh_lazy("anyhow::Error", "ignore-error")]))]
        if last == "execute" and "ThreadPool" in callee:
            st.trace.append(("effect", "dispatch", list(args), None))
            from ..mirsym import UNIT
            return UNIT
        return NotImplemented
    ex.hooks = [h, clihooks.silence_logging]
    ex.max_block_visits = 2
    ex.max_paths = 50000
    outs, fid = run_from_block(ex, fn, nxt[0])
    # flags read by the loop: opt.respect_ignores (through the Arc<Opt>) and the local use_default_glob
    udg = None
    for loc, ty in fn.locals.items():
        if ty == "bool" and fn.debug and any(v == loc and k == "use_default_glob" for k, v in fn.debug.items()):
            udg = loc
    respect = [v for (oid, key), v in ex.lazy_tab.items() if isinstance(v, Sym) and z3.is_bool(v.t) and key[0] == "field"
               and key[1] == T.field_index("Opt", "respect_ignores")]
    n = 0
    seen_dispatch = set()
    for pi, o in enumerate(outs):
        if o.kind not in ("return", "loopbound"):
            continue
        walked = o.state.aux.get("walk", 0)
        if walked < 1:
            continue
        disp = [t for t in o.trace if t[0] == "effect" and t[1] == "dispatch"]
        ins = [t for t in o.trace if t[0] == "effect" and t[1] == "seen_files.insert"]
        udg_v = o.state.store.get((fid, udg)) if udg else None
        use_default = udg_v.t if isinstance(udg_v, Sym) else z3.Bool("use_default_glob")
        resp = respect[0].t if respect else z3.Bool("respect_ignores")
        F = facts
        glob_ok = z3.Or(z3.Not(use_default), F["glob_match"])
        want = z3.And(z3.Not(F["seen"]), F["is_file"],
                      z3.If(F["explicit"], z3.Or(z3.Not(resp), z3.And(glob_ok, z3.Not(F["ignored"]))), glob_ok))
        # paths that end in an early return (configuration / ignore-file error) dispatch nothing: allowed (C14's census covers them)
        errored = any(isinstance(deref_val(ex, o.state, t[3]), Agg) and deref_val(ex, o.state, t[3]).variant == "Err" for t in o.trace
                      if t[0] == "havoc" and t[1].split("::")[-1] in ("load_configuration",)) or (o.kind == "return" and isinstance(o.value, Agg) and o.value.variant == "Err")
        pc = list(o.pc)
        if not ses.reachable(pc):
            continue
        n += 1
        got = len(disp) >= 1
        seen_dispatch.add(got)
        if not errored:
            r, m = ses.obligation(f"entry/path{pi}/dispatched-iff-selected", pc, z3.BoolVal(got) != want,
                                  "handed to the pool iff not seen, a file, and selected (explicit / glob / ignore rules)")
            if r == "sat":
                vals = {k: z3.is_true(m.eval(v, model_completion=True)) for k, v in F.items()}
                vals["respect_ignores"] = z3.is_true(m.eval(resp, model_completion=True))
                vals["use_default_glob"] = z3.is_true(m.eval(use_default, model_completion=True))
                flagged.append((f"entry/path{pi}/dispatched-iff-selected", f"an entry with {vals} is {'formatted' if got else 'skipped'}", "select", vals))
        if len(disp) > 1:
            flagged.append((f"entry/path{pi}/dispatched-once", "one entry is handed to the pool more than once", "select", {}))
        if disp:
            # the worker closure captures this entry's path
            clos = deref_val(ex, o.state, disp[0][2][1])
            ok = isinstance(clos, Agg) and any(deref_val(ex, o.state, x) is path for x in clos.fields)
            r, m = ses.obligation(f"entry/path{pi}/worker-gets-this-path", pc, z3.BoolVal(not ok), "the worker closure captures the entry's path")
            if r == "sat":
                flagged.append((f"entry/path{pi}/worker-gets-this-path", "the worker is given another path than the entry's", "select", {}))
        r, m = ses.obligation(f"entry/path{pi}/recorded-in-seen_files-iff-new", pc, z3.And(z3.Not(F["seen"]), z3.BoolVal(not ins)) if not errored or ins else z3.BoolVal(False),
                              "a path that was not in seen_files is inserted (HashSet::insert of a present key is a no-op)")
        if r == "sat":
            flagged.append((f"entry/path{pi}/recorded-in-seen_files-iff-new", "seen_files is not updated for a new path (it can be processed twice)", "dedup", {}))
    # the de-duplication key does not depend on how the path is spelled: the walk of `.` yields `./a.lua`, the argument may say `a.lua`
    keyed = 0
    for pi, o in enumerate(outs):
        ins = [t for t in o.trace if t[0] == "effect" and t[1] == "seen_files.insert"]
        if o.kind not in ("return", "loopbound") or not ins or keyed:
            continue
        keyed += 1
        from . import c02
        P = c02.Prov(ex, o)
        prov = P.of(ins[0][2][0])
        norm = False
        for oid_ in prov:
            hc = ex.havoc_calls.get(oid_)
            if not hc:
                continue
            last = hc[0].split("::")[-1]
            g = ex.resolve(hc[0])
            if last in NORMALISERS or (g is not None and any(re.search(r"::(" + "|".join(NORMALISERS) + r")\b", s_[2]) for sts in g.blocks.values() for s_ in sts if s_[0] == "call")):
                norm = True
        r, m = ses.obligation("entry/dedup-key-is-spelling-independent", list(o.pc), z3.BoolVal(not norm),
                              "the key recorded in seen_files is a normal form of the path (a leading `./` does not make another file)")
        if r == "sat":
            flagged.append(("entry/dedup-key-is-spelling-independent", "seen_files is keyed by the path exactly as spelled: `./a.lua` (from walking `.`) and `a.lua` (named) "
                            "are processed as two files", "dedup-key", {}))
    rep.bounds["entry_paths"] = n
    if n == 0 or seen_dispatch != {True, False}:
        raise Inconclusive(f"walker loop: {n} paths, dispatch outcomes {seen_dispatch}")
    return flagged


def helpers(ses, rep):
    flagged = []
    ex = ses.executor("bin", "default", inline=lambda n_, f: False)
    T = ex.enums
    f = ses.need(ex, "should_respect_ignores")
    args = [RefV(ex.fresh_lazy(t.lstrip("&"), p)) if t.startswith("&") else ex.fresh_lazy(t, p) for p, t in f.params]
    for pi, o in enumerate(ex.run(f, args)):
        if o.kind != "return" or not isinstance(o.value, Sym):
            continue
        ex_calls = find_calls(o.trace, lambda n_: n_.split("::")[-1] == "is_explicitly_provided")
        resp = ex.lazy_tab.get((args[0].v.oid, ("field", T.field_index("Opt", "respect_ignores"))))
        if not ex_calls:
            flagged.append((f"should_respect_ignores/path{pi}", "should_respect_ignores does not ask whether the path was named explicitly", "select", {}))
            continue
        e = ex_calls[0][2].t
        want = z3.Or(z3.Not(e), resp.t) if resp is not None else z3.Not(e)
        r, m = ses.obligation(f"should_respect_ignores/path{pi}", list(o.pc), o.value.t != want, "!explicit || respect_ignores")
        if r == "sat":
            flagged.append((f"should_respect_ignores/path{pi}", "should_respect_ignores is not `!explicit || respect_ignores`", "select", {}))
    f = ses.need(ex, "is_explicitly_provided")
    outs = ex.run(f, [RefV(ex.fresh_lazy(t.lstrip("&"), p)) if t.startswith("&") else ex.fresh_lazy(t, p) for p, t in f.params])
    anys = [c for o in outs for c in find_calls(o.trace, lambda n_: n_.endswith("Iterator>::any"))]
    ok = bool(anys) and all(o.kind != "return" or isinstance(o.value, Sym) for o in outs)
    files_read = any(k[1] == ("field", T.field_index("Opt", "files")) for k in ex.lazy_tab)
    r, m = ses.obligation("is_explicitly_provided/any-over-opt.files", [], z3.BoolVal(not (ok and files_read)), "opt.files.iter().any(|p| path == p)")
    if r == "sat":
        flagged.append(("is_explicitly_provided", "is_explicitly_provided is not an `any` over opt.files", "select", {}))
    return flagged


def ignore_lookup(ses, rep):
    """I  path_is_stylua_ignored(path): the matcher that decides is the one get_ignore returns for THIS path's directory, and it is asked
    about THIS path - on every returning path (no matcher carried over from another file)"""
    from . import c02
    flagged = []
    ex = ses.executor("bin", "default", inline=lambda n_, f: False)
    ex.max_block_visits = 2
    f = ses.need(ex, "path_is_stylua_ignored")
    args = [RefV(ex.fresh_lazy(t.lstrip("&").replace("mut ", "", 1).strip(), p)) if t.startswith("&") else ex.fresh_lazy(t, p) for p, t in f.params]
    pi_ = next(i for i, (p, t) in enumerate(f.params) if re.search(r"(^|[&: ])Path$", t))
    path = args[pi_].v
    outs = ex.run(f, args)
    n = 0
    for pi, o in enumerate(outs):
        if o.kind != "return":
            continue
        v = deref_val(ex, o.state, o.value)
        if not (isinstance(v, Agg) and v.variant == "Ok"):
            continue
        n += 1
        P = c02.Prov(ex, o)
        ms = find_calls(o.trace, lambda n_: n_.endswith("matched_path_or_any_parents") or n_.endswith("Gitignore::matched"))
        ok, why = True, ""
        if not ms:
            # `not ignored` without asking: only for a path a root test (starts_with / has_root ..) has put outside the matcher's directory
            inner = deref_val(ex, o.state, v.fields[0])
            root_tests = [t for t in o.trace if t[0] == "havoc" and t[1].split("::")[-1] in ("starts_with", "has_root", "is_absolute", "is_relative", "strip_prefix")
                          and path.oid in P.of((t[4] if len(t) > 4 else t[2])[0])]
            if not (isinstance(inner, Sym) and z3.is_false(z3.simplify(inner.t)) and root_tests):
                ok, why = False, "no .styluaignore matcher is consulted"
        for c in ms:
            snap = c[4] if len(c) > 4 else c[1]
            gi = P.of(snap[0])
            gets = [t for t in o.trace if t[0] == "havoc" and t[1].split("::")[-1] == "get_ignore" and isinstance(t[3], Lazy) and t[3].oid in gi]
            if not gets or not any(path.oid in P.of((t[4] if len(t) > 4 else t[2])[0]) for t in gets):
                ok, why = False, "the matcher does not come from get_ignore(<this path's directory>)"
            others = {x.oid for a_ in args for x in [a_.v if isinstance(a_, RefV) else a_] if isinstance(x, Lazy) and x is not path and not x.ty.strip().endswith("bool")}
            if gi & others:
                ok, why = False, "the matcher is taken from state passed in by the caller"
            if path.oid not in P.of(snap[1]):
                ok, why = False, "the matcher is asked about another path"
        # the `ignore` crate's contract: matched_path_or_any_parents panics for a path that is absolute and not under the matcher's root
        for ci, c in enumerate(ms):
            if not c[0].endswith("matched_path_or_any_parents") if isinstance(c[0], str) else False:
                continue
            tests = [t for t in o.trace if t[0] == "havoc" and t[1].split("::")[-1] in ("starts_with", "has_root", "is_absolute", "is_relative", "strip_prefix")
                     and path.oid in P.of((t[4] if len(t) > 4 else t[2])[0])]
            oid2 = f"ignore-lookup/path{pi}/call{ci}/path-under-the-matcher-root"
            r, m = ses.obligation(oid2, list(o.pc), z3.BoolVal(not tests), "contract: matched_path_or_any_parents requires a path that is relative or under the ignore file's directory")
            if r == "sat":
                flagged.append((oid2, "path_is_stylua_ignored hands any path to Gitignore::matched_path_or_any_parents, which panics for an absolute path outside the "
                                      "ignore file's directory", "ignore-root", {}))
        oid = f"ignore-lookup/path{pi}/matcher-of-this-path"
        r, m = ses.obligation(oid, list(o.pc), z3.BoolVal(not ok), "ignored(path) = get_ignore(dir(path)).matched(path)")
        if r == "sat":
            flagged.append((oid, f"path_is_stylua_ignored: {why}", "ignore", {}))
    if n == 0:
        raise Inconclusive("path_is_stylua_ignored: no Ok path")
    return flagged


def setup(ses, rep):
    """S: the builder calls of format()"""
    flagged = []
    funcs = ses.mir("bin", "default")
    fn = [f for f in funcs.get("format", []) if f.kind == "fn"][0]
    text = fn.text
    checks = [("standard_filters(true)", r"WalkBuilder::standard_filters\((?:move|copy) _\d+, const true\)"),
              ("parents(true)", r"WalkBuilder::parents\((?:move|copy) _\d+, const true\)"),
              ("custom ignore file .styluaignore", r"add_custom_ignore_filename::<&str>\((?:move|copy) _\d+, const \"\.styluaignore\"\)"),
              ("every path is added", r"WalkBuilder::add::<&PathBuf>\("),
              ("first path seeds the walker", r"WalkBuilder::new::<&PathBuf>\("),
              ("globs become overrides", r"WalkBuilder::overrides\(")]
    for name, pat in checks:
        ok = re.search(pat, text) is not None
        r, m = ses.obligation(f"setup/{name}", [], z3.BoolVal(not ok), "walker set-up call present with the documented argument")
        if r == "sat":
            flagged.append((f"setup/{name}", f"walker set-up: `{name}` is missing or has another argument", "setup", {}))
    # hidden(!allow_hidden): the argument of WalkBuilder::hidden is the negation of opt.allow_hidden
    m_ = re.search(r"WalkBuilder::hidden\((?:move|copy) _\d+, (?:move|copy) (_\d+)\)", text)
    ok = False
    if m_:
        v = m_.group(1)
        d = re.search(re.escape(v) + r" = Not\((?:copy|move) (_\d+)\)", text)
        if d:
            src = re.search(re.escape(d.group(1)) + r" = copy \(\(?\*?_\d+\)?\.(\d+): bool\)", text) or re.search(re.escape(d.group(1)) + r" = copy \(_\d+\.(\d+): bool\)", text)
            T = ses.enums("default")
            ok = src is not None and int(src.group(1)) == T.field_index("Opt", "allow_hidden")
    r, m = ses.obligation("setup/hidden(!allow_hidden)", [], z3.BoolVal(not ok), "hidden files are skipped unless --allow-hidden")
    if r == "sat":
        flagged.append(("setup/hidden", "walker set-up: hidden(..) is not the negation of opt.allow_hidden", "setup", {}))
    return flagged


# ------------------------------------------------------------------------------------------------ replay
U, F_ = clireplay.UNFORMATTED, clireplay.FORMATTED
TREE = {"a.lua": U, "b.txt": U, ".hidden.lua": U, "sub/c.lua": U, "sub/.dot/e.lua": U, "vendor/d.lua": U, "vendor/keep.lua": U, ".styluaignore": "vendor/\n!vendor/keep.lua\n",
        "sub/.styluaignore": "skipme.lua\n", "sub/skipme.lua": U, "notes.md": "local   x   =   1\n", "sub/readme.txt": U, "other/z.lua": U,
        "sub/defs.luau": U, "deep/.styluaignore": "inner/gen/\nskip.lua\n", "deep/inner/gen/out.lua": U, "deep/inner/main.lua": U, "deep/inner/skip.lua": U}


def fmt(r):
    return sorted(k for k, v in r["after"].items() if k in r["before"] and v[0] != r["before"][k][0])


SCENARIOS = [
    ("walk", ["."], ["a.lua", "deep/inner/main.lua", "other/z.lua", "sub/c.lua"]),
    ("walk-allow-hidden", ["--allow-hidden", "."], [".hidden.lua", "a.lua", "deep/inner/main.lua", "other/z.lua", "sub/.dot/e.lua", "sub/c.lua"]),
    ("explicit-ignored", ["vendor/d.lua"], ["vendor/d.lua"]),
    ("explicit-ignored-respect", ["--respect-ignores", "vendor/d.lua"], []),
    ("explicit-non-lua", ["b.txt"], ["b.txt"]),
    ("explicit-non-lua-respect", ["--respect-ignores", "b.txt"], []),
    ("explicit-nested-ignore-respect", ["--respect-ignores", "sub/skipme.lua"], []),
    ("explicit-nested-ignore", ["sub/skipme.lua"], ["sub/skipme.lua"]),
    ("overlapping", [".", "a.lua", "sub", "sub/c.lua", "a.lua"], ["a.lua", "deep/inner/main.lua", "other/z.lua", "sub/c.lua"]),
    ("glob", ["-g", "*.txt", "."], ["b.txt", "sub/readme.txt"]),
    ("dir-below-an-ignore-file", ["deep/inner"], ["deep/inner/main.lua"]),
    ("dir-below-an-ignore-file-slash", ["./deep/inner/"], ["deep/inner/main.lua"]),
    ("dir-and-ignored-file", ["sub", "vendor/d.lua"], ["sub/c.lua", "vendor/d.lua"]),
    ("dir-then-explicit-non-lua-inside", ["sub", "sub/readme.txt"], ["sub/c.lua", "sub/readme.txt"]),
    ("explicit-non-lua-then-dir", ["sub/readme.txt", "sub"], ["sub/c.lua", "sub/readme.txt"]),
    ("cwd-then-explicit-non-lua", [".", "b.txt"], ["a.lua", "b.txt", "deep/inner/main.lua", "other/z.lua", "sub/c.lua"]),
    ("respect-several-dirs", ["--respect-ignores", "a.lua", "sub/skipme.lua", "sub/c.lua"], ["a.lua", "sub/c.lua"]),
    ("respect-several-dirs-reversed", ["--respect-ignores", "sub/skipme.lua", "sub/c.lua", "a.lua"], ["a.lua", "sub/c.lua"]),
    ("respect-nested-then-root-pattern", ["--respect-ignores", "sub/c.lua", "vendor/d.lua"], ["sub/c.lua"]),
]


# (name, argv, cwd inside the tree, files expected to be formatted [relative to the tree root])
CWD_SCENARIOS = [
    ("respect-absolute-outside-cwd", ["--respect-ignores", "{ROOT}/a.lua"], "sub", ["a.lua"]),
    ("respect-absolute-outside-cwd-ignore-only-in-cwd", ["--respect-ignores", "{ROOT}/other/z.lua"], "sub", ["other/z.lua"]),
    ("stdin-filepath-absolute-outside-cwd", ["--respect-ignores", "--stdin-filepath", "{ROOT}/other/z.lua", "-"], "sub", []),
    ("respect-absolute-inside-cwd", ["--respect-ignores", "{ROOT}/sub/c.lua", "{ROOT}/sub/skipme.lua"], "sub", ["sub/c.lua"]),
    ("respect-parent-relative", ["--respect-ignores", "../a.lua"], "sub", ["a.lua"]),
    ("absolute-outside-cwd", ["{ROOT}/a.lua"], "sub", ["a.lua"]),
]
ONCE_SCENARIOS = [
    ("once-cwd-and-file", [".", "a.lua"], ["a.lua", "deep/inner/main.lua", "other/z.lua", "sub/c.lua"]),
    ("once-dir-and-dotted-file", ["sub", "./sub/c.lua", "sub/c.lua"], ["sub/c.lua"]),
    ("once-repeated", ["a.lua", "a.lua", "./a.lua"], ["a.lua"]),
    ("once-cwd-and-explicit-non-lua", [".", "b.txt"], ["a.lua", "b.txt", "deep/inner/main.lua", "other/z.lua", "sub/c.lua"]),
]


# paths that leave the working directory through `..`: `../x` and `x` are different files
PARENT_TREE = {"shared/util.lua": U, "app/shared/util.lua": U, "notes.txt": U, "app/notes.txt": U, "app/main.lua": U, "app/lib/m.lua": U, "lib/m.lua": U}
PARENT_SCENARIOS = [
    ("parent-dir-then-same-name-dir", ["../shared", "shared"], "app", ["app/shared/util.lua", "shared/util.lua"]),
    ("same-name-dir-then-parent-dir", ["shared", "../shared"], "app", ["app/shared/util.lua", "shared/util.lua"]),
    ("cwd-then-parent-non-lua", [".", "../notes.txt"], "app", ["app/lib/m.lua", "app/main.lua", "app/shared/util.lua", "notes.txt"]),
    ("parent-file-then-same-name-file", ["../lib/m.lua", "lib/m.lua"], "app", ["app/lib/m.lua", "lib/m.lua"]),
    ("dot-dot-inside", ["lib/../lib/m.lua"], "app", ["app/lib/m.lua"]),
    ("two-levels-up", ["../../lib/m.lua", "m.lua"], "app/lib", ["app/lib/m.lua", "lib/m.lua"]),
]


def battery():
    binp = common.native_build("default")
    fails = []
    for name, argv, cwd, want in PARENT_SCENARIOS:
        r = clireplay.run_cli(binp, PARENT_TREE, ["--no-editorconfig"] + argv, cwd_rel=cwd)
        got = fmt(r)
        if got != sorted(want) or r["rc"] != 0:
            fails.append((name, f"scenario {name} {argv} (cwd {cwd}): formatted {got}, expected {sorted(want)} (rc={r['rc']}) {r['err'][:160]!r}", clireplay.describe(r)))
    for name, argv, want in SCENARIOS:
        r = clireplay.run_cli(binp, TREE, ["--no-editorconfig"] + argv)
        got = fmt(r)
        if got != sorted(want) or r["rc"] != 0:
            fails.append((name, f"scenario {name} {argv}: formatted {got}, expected {sorted(want)} (rc={r['rc']})", clireplay.describe(r)))
    for name, argv, cwd, want in CWD_SCENARIOS:
        r = clireplay.run_cli(binp, TREE, ["--no-editorconfig"] + argv, cwd_rel=cwd, stdin=U if "-" in argv else None)
        got = fmt(r)
        if got != sorted(want) or r["rc"] != 0:
            fails.append((name, f"scenario {name} {argv} (cwd {cwd}): formatted {got}, expected {sorted(want)} (rc={r['rc']}) {r['err'][:160]!r}", clireplay.describe(r)))
    # processed once: every unformatted file is reported once by --check
    for name, argv, want in ONCE_SCENARIOS:
        r = clireplay.run_cli(binp, TREE, ["--no-editorconfig", "--check", "--output-format", "summary"] + argv)
        listed = sorted(re.sub(r"^\./", "", ln.strip()) for ln in r["out"].splitlines() if ln.strip().endswith((".lua", ".txt")))
        if listed != sorted(want):
            fails.append((name, f"scenario {name} {argv}: --check reports {listed}, expected each of {sorted(want)} once", clireplay.describe(r)))
    return fails


KIND2SCEN = {"dedup-key": [s_[0] for s_ in ONCE_SCENARIOS] + [s_[0] for s_ in PARENT_SCENARIOS], "ignore-root": [s_[0] for s_ in CWD_SCENARIOS],
             "ignore": ["explicit-ignored-respect", "explicit-nested-ignore-respect", "respect-several-dirs", "respect-several-dirs-reversed", "respect-nested-then-root-pattern"],
             "setup": ["walk", "walk-allow-hidden", "glob", "overlapping", "dir-and-ignored-file", "dir-below-an-ignore-file", "dir-below-an-ignore-file-slash"],
             "dedup": ["overlapping"] + [s_[0] for s_ in PARENT_SCENARIOS], "select": [s[0] for s in SCENARIOS] + [s_[0] for s_ in PARENT_SCENARIOS]}


def run(ses, rep):
    rep.assumptions += ["the `ignore` crate's walker yields every path reachable from the added roots that its filters (gitignore-style rules of "
                        ".styluaignore / custom ignore files, hidden-file filter, overrides) admit, each root itself included; GlobSet::is_match and "
                        "Gitignore::matched_path_or_any_parents are exact",
                        "one arbitrary state of the loop: the facts about the entry (seen, is_file, named explicitly, glob match, ignored) are independent Booleans"]
    rep.outside += ["which paths the walker yields for a given tree (nested .styluaignore files, negated patterns): replayed on a fixed tree only; "
                    "note: a --glob whitelist match overrides the hidden-file filter and .styluaignore inside the `ignore` crate (observed: -g '*.lua' formats "
                    ".hidden.lua) - the statement's `hidden unless --allow-hidden` does not hold under explicit globs, by the crate's documented precedence",
                    "the stdin entry (C17)", "processing inside the worker (C14)"]
    flagged = setup(ses, rep) + helpers(ses, rep) + entry_step(ses, rep) + ignore_lookup(ses, rep)
    rep.samples.append({"flagged": [(f[0], f[1]) for f in flagged][:8]})
    if not flagged:
        return
    fails = battery()
    for oid, what, kind, info in flagged:
        hit = [f for f in fails if f[0] in KIND2SCEN.get(kind, [])]
        if hit:
            name, v, rec = hit[0]
            rep.add(oid, rep.violation({"obligation": kind, "scenario": name}, {"what": what, "observed": v, **rec}), f"{what}; {v}")
        else:
            rep.add(oid, "inconclusive", f"{what}: the selection battery shows the documented file sets on the native build")


def fallback(rep):
    """kernels undecided: the selection battery is run; only a failing concrete oracle is reported"""
    for name, v, rec in battery()[:4]:
        rep.add(f"battery/{name}", rep.violation({"obligation": "battery-after-undecided-kernel", "scenario": name}, {"what": "kernel undecided; selection battery", "observed": v, **rec}), v)


def replay(path):
    fails = battery()
    for f in fails[:5]:
        print(f[1])
    if fails:
        print(f"VIOLATION property=C16 replay={path}")
        return 1
    print("selection battery: every scenario formats exactly the documented files")
    return 0


if __name__ == "__main__":
    for f in battery():
        print(f[1])

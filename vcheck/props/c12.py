"""C12 — require sorting only permutes statements inside a require block (kernels; DESIGN.md section 5).

 G  partition_nodes_into_groups, one loop step from an arbitrary `parts` tail: a new group is opened iff the list is empty, the
    previous part is Other, the kind differs, or more than one line lies between the END of the previous require and this one
 I  sort_requires' ignore guard closure: true iff should_format_node(stmt) != Normal (Skip and NotInRange alike)
 S  sort_requires, one rebuild step: guard true => the group is re-emitted in order, no sort; guard false => sort_by_key on the
    variable name; leading trivia: what the new first member had must not be dropped (known finding F8)
 E  format_ast calls sort_requires only when config.sort_requires.enabled
"""
import json, re, z3

from .. import common
from ..common import Inconclusive
from ..mirsym import Sym, Str, Agg, Lazy, Ref, RefV, UNIT, vkey
from ..summaries import canon, deref_val, opt_some, opt_none
from ..session import find_calls
from .. import ignoremodel


def iter_once(item_ty, label):
    state = {}

    def hook(ex, st, callee, args, dty):
        c = canon(callee)
        if re.fullmatch(r"<std::slice::Iter<'_, \(Stmt, .*\)> as Iterator>::next", c):
            k = st.aux.get("it", 0)
            st.aux["it"] = k + 1
            if "item" not in state:
                state["item"] = ex.fresh_lazy(item_ty, label)
            return opt_some(dty, RefV(state["item"])) if k == 0 else opt_none(dty)
        return NotImplemented
    return hook, state


def grouping(ses, rep):
    flagged = []
    hook, state = iter_once("(Stmt, Option<TokenReference>)", "stmt")
    ex = ses.executor("lib", "default", hooks=[hook], inline=lambda n, f: False)
    ex.max_block_visits = 3
    ex.max_paths = 20000
    ex.stateful_next = True
    T = ex.enums
    fn = ses.need(ex, "partition_nodes_into_groups")
    outs = ex.run(fn, [RefV(ex.fresh_lazy("Block", "block"))])
    n = 0
    for pi, o in enumerate(outs):
        if o.kind != "return":
            continue
        kind_call = find_calls(o.trace, lambda x: x.split("::")[-1] == "get_expression_kind")
        if not kind_call:
            continue
        kd = kind_call[0][2]
        st = o.state
        if not ses.reachable(list(o.pc) + [ex.discr(st, kd) == 1]):
            continue            # not a require statement on this path
        n += 1
        # membership: only `local ONE_NAME = ONE_VALUE` is a group member (the path must have established both counts)
        from . import c02
        P = c02.Prov(ex, o)
        hv = [t for t in o.trace if t[0] == "havoc"]
        for acc in ("names", "expressions"):
            srcs = {t[3].oid for t in hv if t[1].split("::")[-1] == acc and isinstance(t[3], Lazy)}
            ev = []
            for t in hv:
                last = t[1].split("::")[-1]
                a0 = (t[4] if len(t) > 4 else t[2])[0] if (t[4] if len(t) > 4 else t[2]) else None
                if last == "len" and isinstance(t[3], Sym) and srcs & P.of(a0):
                    ev.append(t[3].t == z3.BitVecVal(1, 64))
            nx = [t for t in hv if t[1].split("::")[-1] == "next" and (t[4] if len(t) > 4 else t[2]) and srcs & P.of((t[4] if len(t) > 4 else t[2])[0])]
            if len(nx) >= 2:
                ev.append(z3.And(ex.discr(st, nx[0][3]) == 1, ex.discr(st, nx[1][3]) == 0))
            bad = z3.BoolVal(True) if not ev else z3.Not(z3.Or(ev))
            oid = f"grouping/path{pi}/member-has-exactly-one-of-{acc}"
            r, m = ses.obligation(oid, list(o.pc) + [ex.discr(st, kd) == 1], bad, f"a statement is classified as a require only after {acc}() was found to hold exactly one element")
            if r == "sat":
                flagged.append((oid, f"a local with several {acc} can become a member of a require group", "members-count", {}))
        lasts = find_calls(o.trace, lambda x: re.search(r"impl \[BlockPartition\]>::last$", x) is not None)
        lines = find_calls(o.trace, lambda x: x.endswith("Position::line"))
        ends = find_calls(o.trace, lambda x: x.endswith("as Node>::end_position") or x.endswith("::end_position"))
        pushes = [p for p in find_calls(o.trace, lambda x: re.search(r"Vec::push$", x) is not None)
                  if isinstance(deref_val(ex, st, p[1][1]), Agg) and deref_val(ex, st, p[1][1]).variant == "RequiresGroup"]
        opened = len(pushes) > 0
        if not lasts:
            rep.add(f"grouping/path{pi}", "inconclusive", "require path that never looks at the previous partition")
            continue
        last = lasts[0][2]
        dl = ex.discr(st, last)                                   # Option<&BlockPartition>
        part = deref_val(ex, st, ex.lazy_child(st, last, ("vfield", "Some", 0), "&BlockPartition", ".Some.0"))
        dp = ex.discr(st, part)
        OTHER = z3.BitVecVal(T.index("BlockPartition", "Other"), 64)
        old_kind = ex.lazy_child(st, part, ("vfield", "RequiresGroup", 0), "GroupKind", ".RequiresGroup.0")
        new_kind = ex.lazy_child(st, kd, ("vfield", "Some", 0), "GroupKind", ".Some.0")
        kinds_differ = ex.discr(st, old_kind) != ex.discr(st, new_kind)
        conds = [dl == 0, z3.And(dl == 1, dp == OTHER), z3.And(dl == 1, dp != OTHER, kinds_differ)]
        gap_known = len(lines) >= 2 and bool(ends)
        if gap_known:
            cur, prev = lines[0][2].t, lines[-1][2].t
            conds.append(z3.And(dl == 1, dp != OTHER, z3.Not(kinds_differ), z3.UGT(cur - prev, z3.BitVecVal(1, 64))))
            # the previous line must be the END line of the previous require statement (a wrapped require spans several lines)
            end_owner_ok = True
        want_open = z3.Or(conds)
        base = list(o.pc) + ex.all_discr_ranges() + [ex.discr(st, kd) == 1]
        if gap_known:
            base.append(z3.UGE(lines[0][2].t, lines[-1][2].t))       # statements are in source order (parser)
        same_kind_adjacent = z3.And(dl == 1, dp != OTHER, z3.Not(kinds_differ))
        if not gap_known and ses.reachable(base + [same_kind_adjacent]):
            r, m = ses.obligation(f"grouping/path{pi}/gap-from-previous-end-line", base + [same_kind_adjacent], z3.BoolVal(True))
            if r == "sat":
                flagged.append((f"grouping/path{pi}/gap-from-previous-end-line",
                                "the line gap is not computed from the end position of the previous require statement", "grouping", {}))
            continue
        r, m = ses.obligation(f"grouping/path{pi}/new-group-iff-rule", base, z3.BoolVal(opened) != want_open,
                              "new group iff first / after Other / kind differs / more than one line after the previous require's end")
        if r == "sat":
            flagged.append((f"grouping/path{pi}/new-group-iff-rule", f"group boundary decision differs from the rule (opened={opened})", "grouping", {}))
    rep.bounds["grouping_require_paths"] = n
    if n == 0:
        raise Inconclusive("partition_nodes_into_groups: no path classifies a require statement")
    return flagged


def local_helpers(ex):
    """in-crate functions sort_requires calls directly (a refactoring may move the ignore test or the trivia swap into one)"""
    fn = [f for f in ex.funcs.get("sort_requires", [])]
    import os
    src = open(os.path.join(common.REPO, "src/sort_requires.rs")).read().split("#[cfg(test)]")[0]
    names = set(re.findall(r"\bfn\s+(\w+)", src))
    out = []
    for f in fn:
        for sts in f.blocks.values():
            for s_ in sts:
                if s_[0] == "call":
                    g = ex.resolve(s_[2])
                    if g is not None and "{closure" not in g.name and len(g.blocks) <= 40 and g.name not in ("partition_nodes_into_groups",) \
                            and g.name.split("::")[-1] in names and "<impl" not in g.name \
                            and not re.search(r"(^|::)(format_|update_|check_toggle_formatting|should_format_node)", g.name) and g not in out:
                        out.append(g)
    return out


def ignore_guard(ses, rep):
    """the closure handed to `any` in sort_requires"""
    flagged = []
    M = ignoremodel.Model(ses, "default")
    ex = M.new_executor(extra_hooks=[M.hook_sfn])
    T = ex.enums
    fn = ses.need(ex, "sort_requires")
    clos = None
    for bb, sts in [x for g_ in [fn] + local_helpers(ex) for x in g_.blocks.items()]:
        for s_ in sts:
            if s_[0] == "call" and re.search(r"as Iterator>::any::<", s_[2]):
                cm = re.search(r"any::<(\{closure@[^}]*\})>", s_[2])
                if cm:
                    for n_, l in ex.funcs.items():
                        for f in l:
                            if "{closure" in n_ and f.params and cm.group(1) in f.params[0][1]:
                                clos = f
    if clos is None:
        # the test is no longer an `any` over ALL members of the group
        r, m = ses.obligation("ignore-guard/tests-every-member", [], z3.BoolVal(True), "the ignore / range test quantifies over every member of the group")
        return [("ignore-guard/tests-every-member", "sort_requires does not test every member of a group for `stylua: ignore` / the range", "guard", {"which": "non-first"})]
    env = ex.fresh_lazy("closure", "env")
    ctx = ex.fresh_lazy("context::Context", "ctx")
    # the closure captures `ctx: &&Context`
    pair = ex.fresh_lazy("(String, (Stmt, Option<TokenReference>))", "member")
    outs = ex.run(clos, [RefV(env), RefV(pair)])
    normal = z3.BitVecVal(T.index("FormatNode", "Normal"), 64)
    for pi, o in enumerate(outs):
        if o.kind != "return":
            continue
        ghosts = [v for v in M.sfn_memo.values()]
        if not ghosts:
            raise Inconclusive("ignore guard does not call should_format_node")
        d = ex.discr(o.state, ghosts[0])
        r, m = ses.obligation(f"ignore-guard/path{pi}/true-iff-not-normal", list(o.pc) + [z3.ULT(d, z3.BitVecVal(3, 64))], o.value.t != (d != normal),
                              "a member that is Skip or NotInRange blocks sorting of its group")
        if r == "sat":
            which = T.name("FormatNode", m.eval(d, model_completion=True).as_long())
            flagged.append((f"ignore-guard/path{pi}/true-iff-not-normal", f"a {which} member does not block sorting of its group", "guard", {"which": which}))
    return flagged


def rebuild_step(ses, rep):
    flagged = []
    ex = ses.executor("lib", "default", inline=lambda n, f: False)
    helpers = local_helpers(ex)
    ex.inline = lambda n, f: any(f is g for g in helpers)
    T = ex.enums
    fn = ses.need(ex, "sort_requires")
    part = ex.fresh_lazy("BlockPartition", "part")
    state = {}

    def hook(ex_, st, callee, args, dty):
        c = canon(callee)
        if re.search(r"Vec<BlockPartition> as IntoIterator>::into_iter$", c):
            return Lazy(next(ex_.oid_counter), dty, "parts_iter", 0, {"parts": True})
        if re.search(r"IntoIter<BlockPartition> as Iterator>::next$", c):
            k = st.aux.get("pi", 0)
            st.aux["pi"] = k + 1
            return opt_some(dty, part) if k == 0 else opt_none(dty)
        return NotImplemented
    ex.hooks = [hook] + ex.hooks
    ex.max_block_visits = 3
    ex.max_paths = 30000
    args = [RefV(ex.fresh_lazy(t.lstrip("&"), p)) if t.startswith("&") else ex.fresh_lazy(t, p) for p, t in fn.params]
    outs = ex.run(fn, args)
    RG = z3.BitVecVal(T.index("BlockPartition", "RequiresGroup"), 64)
    n = 0
    f8 = False
    for pi, o in enumerate(outs):
        if o.kind != "return":
            continue
        st = o.state
        anys = find_calls(o.trace, lambda x: re.search(r"as Iterator>::any$", x) is not None)
        sorts = find_calls(o.trace, lambda x: re.search(r"::sort_by_key$|::sort_by$|::sort_unstable_by_key$|::sort_by_cached_key$|::sort$", x) is not None)
        if not anys:
            continue
        if not ses.reachable(list(o.pc) + [ex.discr(st, part) == RG]):
            continue
        n += 1
        guard = anys[0][2].t
        pc = list(o.pc) + [ex.discr(st, part) == RG]
        if ses.reachable(pc + [guard]):
            r, m = ses.obligation(f"rebuild/path{pi}/ignored-group-not-sorted", pc + [guard], z3.BoolVal(bool(sorts)), "guard true => no sort call")
            if r == "sat":
                flagged.append((f"rebuild/path{pi}/ignored-group-not-sorted", "a group with an ignored / out-of-range member is sorted", "guard", {"which": "Skip"}))
        if ses.reachable(pc + [z3.Not(guard)]):
            stable = bool(sorts) and all(re.search(r"::sort_by_key$|::sort_by_cached_key$|::sort_by$", s_[0]) for s_ in sorts)
            r, m = ses.obligation(f"rebuild/path{pi}/group-sorted-stably", pc + [z3.Not(guard)], z3.BoolVal(not stable), "guard false => one stable sort of the group")
            if r == "sat":
                flagged.append((f"rebuild/path{pi}/group-sorted-stably", "a sortable group is not sorted (or sorted unstably)", "sort", {}))
            # leading trivia of the member that becomes first after sorting is overwritten with Replace(..)
            names = [t[1] for t in o.trace if t[0] == "havoc"]
            sort_at = max([i for i, nm in enumerate(names) if re.search(r"::sort", nm)] + [-1])
            after = names[sort_at + 1:] if sort_at >= 0 else []
            replaces_after = [i for i, t in enumerate([t for t in o.trace if t[0] == "havoc"][sort_at + 1:])
                              if t[1].endswith("update_leading_trivia") and isinstance(deref_val(ex, st, t[2][1]), Agg)
                              and deref_val(ex, st, t[2][1]).variant == "Replace"]
            reads_own = any(nm.endswith("::leading_trivia") for nm in after[:replaces_after[0]]) if replaces_after else True
            if sorts and replaces_after and not f8:
                f8 = True
                r, m = ses.obligation(f"rebuild/path{pi}/first-member-keeps-its-own-leading-comments", pc + [z3.Not(guard)], z3.BoolVal(not reads_own),
                                      "the statement that becomes first keeps what was in front of it (its own leading trivia is read before it is replaced)")
                if r == "sat":
                    flagged.append((f"rebuild/path{pi}/first-member-keeps-its-own-leading-comments",
                                    "after sorting, the new first member's own leading trivia is replaced by the old first member's", "trivia", {}))
    rep.bounds["rebuild_paths"] = n
    if n == 0:
        raise Inconclusive("sort_requires: rebuild loop not recognised")
    # every closure that turns a group member back into a statement must hand back the member's own (Stmt, semicolon) pair
    member_ty = re.compile(r"\(std::string::String, \(Stmt, std::option::Option<TokenReference>\)\)")
    for n_, l in ex.funcs.items():
        if not re.match(r"sort_requires::\{closure#\d+\}$", n_):
            continue
        for f in l:
            if len(f.params) != 2 or not member_ty.search(f.params[1][1]) or not re.search(r"\(Stmt, std::option::Option<TokenReference>\)$", f.ret.strip()):
                continue
            ex3 = ses.executor("lib", "default", inline=lambda n2, f2: False)
            ses.report.fn(f)
            by_ref = f.params[1][1].strip().startswith("&")
            member = ex3.fresh_lazy(f.params[1][1].lstrip("&").strip(), "member")
            env = ex3.fresh_lazy("closure", "env")
            for pi, o in enumerate(ex3.run(f, [RefV(env) if f.params[0][1].startswith("&") else env, RefV(member) if by_ref else member])):
                if o.kind != "return":
                    continue
                v = deref_val(ex3, o.state, o.value)
                pair = ex3.lazy_tab.get((member.oid, ("field", 1)))
                same = isinstance(v, Lazy) and pair is not None and v.oid == pair.oid
                r, m = ses.obligation(f"rebuild/{n_}/path{pi}/member-emitted-with-its-own-semicolon", list(o.pc), z3.BoolVal(not same),
                                      "a group member is re-emitted as its own (statement, semicolon) pair")
                if r == "sat":
                    flagged.append((f"rebuild/{n_}/path{pi}/member-emitted-with-its-own-semicolon",
                                    "a require-group member is re-emitted without its own statement/semicolon pair", "members", {}))
    # key closure: the variable name
    return flagged


def region_tracking(ses, rep):
    """`-- stylua: ignore start` .. `end` regions span statements: the members of a group are ignored when the region is open at them.
    sort_requires sees the top-level statements itself, so it has to toggle the context statement by statement (Context::
    check_toggle_formatting, as format_block does): (a) it is applied to group members and to the statements between groups,
    (b) the guard's should_format_node runs on a toggled context, not on the context sort_requires was given."""
    flagged = []
    funcs = ses.mir("lib", "default")
    ex0 = ses.executor("lib", "default", inline=lambda n, f: False)
    hs = {g.name for g in local_helpers(ex0)}
    own = [f for n_, l in funcs.items() for f in l if n_ == "sort_requires" or n_.startswith("sort_requires::{closure") or n_ in hs
           or any(n_.startswith(h_ + "::{closure") for h_ in hs)]
    togglers = [f for f in own if any(s_[0] == "call" and canon(s_[2]).endswith("check_toggle_formatting") for sts in f.blocks.values() for s_ in sts)]
    member_ty = re.compile(r"\(std::string::String, \(Stmt, std::option::Option<TokenReference>\)\)")
    on_members = [f for f in togglers if any(member_ty.search(t) for _, t in f.params) or f.name == "sort_requires"]
    r, m = ses.obligation("region/contexts-are-toggled-over-the-top-level-statements", [], z3.BoolVal(len(togglers) == 0 or not on_members),
                          "check_toggle_formatting is applied to the statements sort_requires walks over")
    if r == "sat":
        flagged.append(("region/contexts-are-toggled-over-the-top-level-statements", "sort_requires never toggles the ignore state: a group inside "
                        "`-- stylua: ignore start` .. `end` is sorted", "region", {}))
    # (c) the toggled state outlives the group: a closure that toggles over group members stores the new context into a variable it captured
    # from sort_requires (a write through its environment `_1`), not into state private to the iterator adaptor (`scan`'s accumulator)
    for f in togglers:
        if "{closure" not in f.name or not any(member_ty.search(t) for _, t in f.params):
            continue
        envptrs = {"_1"}
        for sts in f.blocks.values():
            for s_ in sts:      # `_7 = copy ((*_1).0: &mut Context)`: a captured mutable reference copied into a temporary
                if s_[0] == "assign" and not s_[1].proj and isinstance(s_[2], tuple) and s_[2][0] == "use" and isinstance(s_[2][1], tuple) \
                        and len(s_[2][1]) > 1 and hasattr(s_[2][1][1], "local") and s_[2][1][1].local == "_1" and s_[2][1][1].proj:
                    envptrs.add(s_[1].local)
        writes_env = any(s_[0] == "assign" and s_[1].local in envptrs and any(pr[0] == "deref" for pr in s_[1].proj) for sts in f.blocks.values() for s_ in sts)
        r, m = ses.obligation(f"region/{f.name}/toggled-context-is-stored-in-a-captured-variable", [], z3.BoolVal(not writes_env),
                              "the context toggled at a group member is written back to sort_requires' own variable")
        if r == "sat":
            flagged.append((f"region/{f.name}/toggled-context-is-stored-in-a-captured-variable", "the ignore state toggled inside a require group is kept in "
                            "iterator-private state: a region opened (or closed) at a group member does not reach the following statements", "region", {}))
    return flagged


def enabled_only(ses, rep):
    flagged = []
    ex = ses.executor("lib", "default", inline=lambda n, f: False)
    T = ex.enums
    fn = ses.need(ex, "format_ast")
    ex.max_block_visits = 3
    args = [RefV(ex.fresh_lazy(t.lstrip("&"), p)) if t.startswith("&") else ex.fresh_lazy(t, p) for p, t in fn.params]
    cfg = [a for a, (p, t) in zip(args, fn.params) if re.search(r"(^|::)Config$", t)]
    if not cfg:
        raise Inconclusive("format_ast has no Config parameter")
    outs = ex.run(fn, args)
    sr = ex.lazy_child(None, cfg[0], ("field", T.field_index("Config", "sort_requires")), "SortRequiresConfig", ".sort_requires")
    en = ex.lazy_child(None, sr, ("field", T.field_index("SortRequiresConfig", "enabled")), "bool", ".enabled")
    for pi, o in enumerate(outs):
        if o.kind != "return":
            continue
        called = bool(find_calls(o.trace, lambda x: x.split("::")[-1] == "sort_requires"))
        r, m = ses.obligation(f"format_ast/path{pi}/sorted-iff-enabled", list(o.pc), z3.BoolVal(called) != en.t, "sort_requires runs iff the option is on")
        if r == "sat":
            flagged.append((f"format_ast/path{pi}/sorted-iff-enabled", "sort_requires is not tied to config.sort_requires.enabled", "enabled", {}))
    return flagged


R = lambda n: f'local {n} = require("{n}")\n'
BATTERY = [
    ("sorted", R("b") + R("a") + R("c"), ["--sort-requires"], R("a") + R("b") + R("c")),
    ("blank-line-splits", R("b") + R("a") + "\n" + R("d") + R("c"), ["--sort-requires"], R("a") + R("b") + "\n" + R("c") + R("d")),
    ("statement-splits", R("b") + R("a") + "print(1)\n" + R("d") + R("c"), ["--sort-requires"], R("a") + R("b") + "print(1)\n" + R("c") + R("d")),
    ("kinds-do-not-merge", R("b") + 'local A = game:GetService("A")\n' + R("a"), ["--sort-requires"], R("b") + 'local A = game:GetService("A")\n' + R("a")),
    ("ignored-member", R("c") + "-- stylua: ignore\n" + R("b") + R("a"), ["--sort-requires"], R("c") + "-- stylua: ignore\n" + R("b") + R("a")),
    ("ignored-second-member", R("c") + '--[[ stylua: ignore ]] local   b   =   require("b")\n' + R("a"), ["--sort-requires"],
     R("c") + '--[[ stylua: ignore ]] local   b   =   require("b")\n' + R("a")),
    ("ignored-last-member", R("c") + R("b") + '--[[ stylua: ignore ]] local   a   =   require("a")\n', ["--sort-requires"],
     R("c") + R("b") + '--[[ stylua: ignore ]] local   a   =   require("a")\n'),
    ("ignore-region", "-- stylua: ignore start\n" + R("b") + R("a") + "-- stylua: ignore end\n" + R("d") + R("c"), ["--sort-requires"],
     "-- stylua: ignore start\n" + R("b") + R("a") + "-- stylua: ignore end\n" + R("c") + R("d")),
    ("ignore-region-opened-earlier", "-- stylua: ignore start\nlocal   v   =   1\n\n" + R("b") + R("a") + "-- stylua: ignore end\nlocal   w   =   2\n", ["--sort-requires"],
     "-- stylua: ignore start\nlocal   v   =   1\n\n" + R("b") + R("a") + "-- stylua: ignore end\nlocal w = 2\n"),
    ("ignore-region-closed-before", "-- stylua: ignore start\nlocal   v   =   1\n-- stylua: ignore end\n\n" + R("b") + R("a"), ["--sort-requires"],
     "-- stylua: ignore start\nlocal   v   =   1\n-- stylua: ignore end\n\n" + R("a") + R("b")),
    ("ignore-region-opened-at-a-member", R("c") + "-- stylua: ignore start\n" + R("b") + "\n" + 'local z   = require("z")\nlocal y   = require("y")\n-- stylua: ignore end\n' + R("k") + R("j"),
     ["--sort-requires"], R("c") + "-- stylua: ignore start\n" + R("b") + "\n" + 'local z   = require("z")\nlocal y   = require("y")\n-- stylua: ignore end\n' + R("j") + R("k")),
    ("ignore-region-closed-at-a-member", "-- stylua: ignore start\nprint(  1  )\n-- stylua: ignore end\n" + R("p") + "\n" + R("z") + R("y"), ["--sort-requires"],
     "-- stylua: ignore start\nprint(  1  )\n-- stylua: ignore end\n" + R("p") + "\n" + R("y") + R("z")),
    ("multi-name-local", R("c") + 'local b, a = require("b")\n' + R("a") + "print(a, b, c)\n", ["--sort-requires"], R("c") + 'local b, a = require("b")\n' + R("a") + "print(a, b, c)\n"),
    ("multi-value-local", R("c") + 'local b = require("b"), 2\n' + R("a"), ["--sort-requires"], R("c") + 'local b = require("b"), 2\n' + R("a")),
    ("wrapped-require", 'local c = require(\n\t"c"\n)\n' + R("b") + R("a"), ["--sort-requires"], R("a") + R("b") + R("c")),
    ("out-of-range-group", R("b") + R("a") + "local v   =   1\n", ["--sort-requires", "--range-start", "46"], R("b") + R("a") + "local v = 1\n"),
    ("partly-in-range-group", R("b") + R("a") + "local v   =   1\n", ["--sort-requires", "--range-start", "30"], R("b") + R("a") + "local v = 1\n"),
    ("off", R("b") + R("a"), [], R("b") + R("a")),
    ("blank-line-with-spaces", R("b") + R("a") + "  \t\n" + R("d") + R("c"), ["--sort-requires"], R("a") + R("b") + "\n" + R("c") + R("d")),
    ("blank-line-crlf", (R("b") + R("a") + "\n" + R("d") + R("c")).replace("\n", "\r\n"), ["--sort-requires"], R("a") + R("b") + "\n" + R("c") + R("d")),
    ("semicolon-comments", 'local b = require("b"); -- CB\nlocal a = require("a"); -- CA\n', ["--sort-requires"],
     'local a = require("a") -- CA\nlocal b = require("b") -- CB\n'),
    ("stable-duplicates", 'local a = require("x")\nlocal B = require("y")\nlocal a = require("z")\n', ["--sort-requires"],
     'local B = require("y")\nlocal a = require("x")\nlocal a = require("z")\n'),
]
TRIVIA = ("comment-on-moved-member", R("b") + "--[[c]] " + R("a"), ["--sort-requires"], "--[[c]]")
def _big_group(n):
    names = [f"m{(i * 7) % 9:02d}" for i in range(n)]
    lines = [f'local {nm} = require("p{i:02d}")\n' for i, nm in enumerate(names)]
    want = [ln for _, _, ln in sorted(((nm, i, ln) for i, (nm, ln) in enumerate(zip(names, lines))), key=lambda t: (t[0], t[1]))]
    return "".join(lines), "".join(want)


for _n in (21, 24, 33, 64):       # (std's unstable sort is an insertion sort - stable - up to 20 elements)
    _src, _want = _big_group(_n)
    BATTERY.append((f"stable-duplicates-{_n}-members", _src, ["--sort-requires"], _want))
KIND2SCEN = {"members-count": ["multi-name-local", "multi-value-local"], "region": ["ignore-region", "ignore-region-opened-earlier", "ignore-region-closed-before", "ignore-region-opened-at-a-member", "ignore-region-closed-at-a-member"], "grouping": ["blank-line-splits", "statement-splits", "kinds-do-not-merge", "wrapped-require", "sorted", "blank-line-with-spaces", "blank-line-crlf"],
             "members": ["semicolon-comments", "sorted", "stable-duplicates"] + [f"stable-duplicates-{n}-members" for n in (21, 24, 33, 64)],
             "guard": ["ignored-member", "ignored-second-member", "ignored-last-member", "out-of-range-group", "partly-in-range-group"], "sort": ["sorted", "stable-duplicates", "blank-line-splits"] + [f"stable-duplicates-{n}-members" for n in (21, 24, 33, 64)],
             "enabled": ["off", "sorted"]}


def run_battery(names):
    binp = common.native_build("default")
    for name, src, args, want in BATTERY:
        if name not in names:
            continue
        rc, out, err = common.run_stylua(binp, src, args)
        if rc != 0 or out != want:
            return name, f"scenario {name}: got {out!r}, expected {want!r}" + (f" (rc={rc}: {err[:100]})" if rc else ""), {"source": src, "args": args, "output": out}
    return None, None, {}


def replay_trivia():
    binp = common.native_build("default")
    name, src, args, must = TRIVIA
    rc, out, err = common.run_stylua(binp, src, args)
    if rc == 0 and must not in out:
        return name, f"comment {must!r} lost by require sorting: {out!r}", {"source": src, "args": args, "output": out}
    return None, None, {}


def run(ses, rep):
    rep.assumptions += ["statements are visited in source order with non-decreasing lines (parser)", "sort_by_key is a stable sort (std)",
                        "get_expression_kind is covered by the repository's unit tests and by replay only"]
    rep.outside += ["the sort implementation; update_positions; get_expression_kind's string tests"]
    flagged = grouping(ses, rep) + ignore_guard(ses, rep)
    try:
        flagged += rebuild_step(ses, rep)
    except Inconclusive:
        if not any(f[0] == "ignore-guard/tests-every-member" for f in flagged):
            raise           # (when the guard is not an `any` any more, that is what gets reported, not the unrecognised loop)
    flagged += enabled_only(ses, rep)
    flagged += region_tracking(ses, rep)
    rep.samples.append({"flagged": [(f[0], f[1]) for f in flagged][:6]})
    for oid, what, kind, info in flagged:
        if kind == "trivia":
            sc, v, rec = replay_trivia()
        else:
            sc, v, rec = run_battery(KIND2SCEN[kind])
        if v is None:
            rep.add(oid, "inconclusive", f"solver model ({what}) did not reproduce on the native build")
            continue
        role = {"obligation": kind, "scenario": sc}
        status = rep.violation(role, {"what": what, "observed": v, "kind": kind, "scenario": sc, **rec})
        rep.add(oid, status, v)


def fallback(rep):
    """kernels undecided: the whole scenario battery is run; only reproduced violations are reported"""
    binp = common.native_build("default")
    for name, src, args, want in BATTERY:
        rc, out, err = common.run_stylua(binp, src, args)
        if rc != 0 or out != want:
            v = f"scenario {name}: got {out!r}, expected {want!r}" + (f" (rc={rc}: {err[:100]})" if rc else "")
            role = {"obligation": "battery-after-undecided-kernel", "scenario": name}
            status = rep.violation(role, {"what": "kernel undecided; scenario battery", "observed": v, "kind": "battery", "scenario": name, "source": src, "args": args, "output": out})
            rep.add(f"battery/{name}", status, v)
    sc, v, rec = replay_trivia()
    if v:
        status = rep.violation({"obligation": "battery-after-undecided-kernel", "scenario": sc}, {"what": "kernel undecided; scenario battery", "observed": v, "kind": "trivia", "scenario": sc, **rec})
        rep.add(f"battery/{sc}", status, v)


def replay(path):
    d = json.load(open(path))
    r = d["replay"]
    sc, v, rec = replay_trivia() if r["kind"] == "trivia" else run_battery([r["scenario"]])
    print(v or "property holds for the recorded scenario")
    if v:
        print(f"VIOLATION property=C12 replay={path}")
        return 1
    return 0

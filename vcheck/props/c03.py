"""C03 — no comment is lost, duplicated or altered (kernel scope: the places where trivia changes hands).

T  transplant: in EVERY formatter function of the library (all layout paths symbolic), a token of the input that does not reach the
   result (removed parentheses, semicolons, condition parentheses, call-sugar parentheses, rebuilt symbols) has BOTH its leading and its
   trailing trivia read and carried into the result - unless a comment test on that token / its container is false on the path.
   Decided by provenance over the executed MIR paths (vcheck/props/c02.py: Prov) plus solver queries for the guards.
L  load_token_trivia, one loop step: a comment / shebang trivia is handed to format_token exactly once and its token pushed exactly
   once; whitespace trivia creates no comment
X  format_token: the text of a comment survives (C10's bounded-string kernel: only trailing white space / line-break spelling change)
   and the long-bracket level of a block comment is the input's
R  format_token_reference: leading / token / trailing of the result come from the input's leading / token / trailing
"""
import re, subprocess, z3

from .. import common, luacorpus
from ..common import Inconclusive
from ..mirsym import Agg, Lazy, Ref, RefV, Str, Sym
from ..session import find_calls
from ..summaries import canon, deref_val
from . import c02
from .c07 import lazy_args

import os
DEBUG = bool(os.environ.get("C03_DEBUG"))
TRIVIA = ("leading_trivia", "trailing_trivia")
# reads of one side of a token's trivia (full_moon accessors and trivia_util's GetLeadingTrivia / GetTrailingTrivia helpers)
TRIVIA_READS = {"leading_trivia": "leading_trivia", "leading_comments": "leading_trivia", "leading_comments_search": "leading_trivia",
                "trailing_trivia": "trailing_trivia", "trailing_comments": "trailing_trivia", "trailing_comments_search": "trailing_trivia"}
TOKEN_TY = re.compile(r"(^|[&: ])TokenReference$")
GUARDS = {"has_leading_comments": ("leading_trivia",), "has_trailing_comments": ("trailing_trivia",), "contains_comments": TRIVIA,
          "token_contains_comments": TRIVIA, "trivia_contains_comments": TRIVIA, "has_inline_comments": TRIVIA,
          "token_contains_leading_comments": ("leading_trivia",), "token_contains_trailing_comments": ("trailing_trivia",),
          "contains_comments_except_trailing": ("leading_trivia",), "spans_multiple_lines": ()}
# formatter functions that give a token's trivia to their caller instead (result type is not the whole node): checked at the caller
SKIP = re.compile(r"^(trivia::|trivia_util::|shape::|context::|verify_ast|sort_requires)|<impl|::\{closure|::promoted\[")

# (function regex, token label regex, side): reason - reviewed hand-over of the trivia by other means
ACCEPTED = [
]


def canonical(ex, byoid, x):
    while x.oid in ex.parent and ex.parent[x.oid][1] == ("deref",) and ex.parent[x.oid][0] in byoid and TOKEN_TY.search(byoid[ex.parent[x.oid][0]].ty.strip()):
        x = byoid[ex.parent[x.oid][0]]
    return x


def transplant(ses, rep, fs):
    flagged = []
    funcs = ses.mir("lib", fs)
    n_fn = n_tok = 0
    for f, rt, ai in c02.struct_functions(funcs, None, by_value=True):
        if rt in ("Shape", "Indent", "Token", "TokenReference", "String", "usize", "bool") or SKIP.search(f.name):
            continue
        ex = ses.executor("lib", fs, inline=lambda n_, fn: False)
        ex.max_block_visits = 1
        ex.inline_closure_calls = True          # a local closure called by name is part of the function (helper lambdas)
        try:
            args = lazy_args(ex, f)
            outs = ex.run(f, args)
        except Inconclusive as e:
            rep.extra.setdefault("not_encoded", []).append(f"{f.name}: {str(e)[:60]}")
            continue
        node = args[ai].v if isinstance(args[ai], RefV) else args[ai]
        if not isinstance(node, Lazy):
            continue
        rets = [o for o in outs if o.kind == "return"]
        if not rets:
            continue
        n_fn += 1
        rep.fn(f)
        for pi, o in enumerate(rets):
            P = c02.Prov(ex, o)
            v = deref_val(ex, o.state, o.value)
            whole = v
            while isinstance(whole, Lazy) and whole.oid in ex.havoc_calls and ex.havoc_calls[whole.oid][0].split("::")[-1] in ("to_owned", "clone"):
                whole = ex.havoc_snap[whole.oid][0]
                while isinstance(whole, RefV):
                    whole = whole.v
            if isinstance(whole, Lazy) and whole.oid == node.oid:
                continue            # the node is returned as it is
            hv = [t for t in o.trace if t[0] == "havoc"]
            touched = set()
            for t in hv:
                # both tokens of a span whose tokens() were asked for are in play, also the one the code never looks at
                if t[1].endswith("ContainedSpan::tokens") and isinstance(t[3], Lazy):
                    for i_ in (0, 1):
                        ch = ex.lazy_child(o.state, t[3], ("field", i_), "&TokenReference", f".{i_}")
                        if isinstance(ch, Lazy):
                            touched.add(ch.oid)
                for a in (t[4] if len(t) > 4 else t[2]):
                    a = deref_val(ex, o.state, a)
                    if isinstance(a, Lazy):
                        touched.add(a.oid)
            byoid = {x.oid: x for x in ex.lazy_tab.values() if isinstance(x, Lazy)}      # (after the loop: deref_val materialises children)
            byoid.update({t[3].oid: t[3] for t in hv if isinstance(t[3], Lazy)})
            toks = {}
            for oid in touched:
                x = byoid.get(oid)
                if x is None or not TOKEN_TY.search(x.ty.strip()) or node.oid not in P.of(x):
                    continue
                x = canonical(ex, byoid, x)
                toks[x.oid] = x
            # trivia accessor results per token, all trivia results
            triv = {}
            for t in hv:
                last = t[1].split("::")[-1]
                if last in TRIVIA_READS and isinstance(t[3], Lazy):
                    a0 = deref_val(ex, o.state, (t[4] if len(t) > 4 else t[2])[0])
                    if isinstance(a0, Lazy) and TOKEN_TY.search(a0.ty.strip()):
                        a0 = canonical(ex, byoid, a0)
                        triv.setdefault(a0.oid, {}).setdefault(TRIVIA_READS[last], t[3])
                        triv[a0.oid].setdefault("all:" + TRIVIA_READS[last], []).append(t[3])
            all_triv = {r.oid for d_ in triv.values() for k_, l_ in d_.items() if k_.startswith("all:") for r in l_}
            D = P.direct(v, stop=all_triv)      # what is handed on AS A VALUE (a sibling field being used does not keep a token)
            full = P.of(v)
            for oid, T in sorted(toks.items()):
                if DEBUG: print("TOK", f.name, pi, T, T.oid)
                # the objects the token was taken from: accessor arguments / lazy parents, up to (excluding) the node itself
                cont_ids, cont, cur, produced, steps = set(), None, T, False, 0
                while cur is not None and steps < 12:
                    steps += 1
                    root = cur.oid
                    while root in ex.parent:
                        root = ex.parent[root][0]
                        if root != node.oid and root in byoid:
                            cont_ids.add(root)
                    if root == node.oid:
                        break
                    if root not in ex.havoc_calls:
                        break
                    nm, a = ex.havoc_calls[root]
                    last = nm.split("::")[-1]
                    if steps == 1 and (last.startswith(("format_", "hang_", "update_", "strip_", "with_", "create_", "fmt_")) or last in ("new", "to_owned", "clone", "symbol")):
                        produced = True     # a token made by a formatter, not a token of the input
                        break
                    c0 = ex.havoc_snap.get(root, a)[0] if a else None
                    while isinstance(c0, RefV):
                        c0 = c0.v
                    if not isinstance(c0, Lazy) or c0.oid == node.oid:
                        break
                    cont_ids.add(c0.oid)
                    cont = cont or c0
                    cur = c0
                if produced:
                    continue
                if not cont_ids:
                    continue            # taken directly from the node: C02's child preservation decides it
                kept = T.oid in D or bool(cont_ids & D)
                if DEBUG: print("   kept", kept, cont, cont_ids, T.oid in D)
                if kept:
                    continue
                n_tok += 1
                for side in TRIVIA:
                    res = triv.get(T.oid, {}).get(side)
                    ok = any(r_.oid in full for r_ in triv.get(T.oid, {}).get("all:" + side, []))
                    if not ok:
                        # the same side read from a formatter-made copy of this token / of its container (format_contained_span(..).tokens().1)
                        for toid, d_ in triv.items():
                            cp = byoid.get(toid)
                            if cp is None or toid == T.oid:
                                continue
                            pc_ = P.of(cp)
                            if (T.oid in pc_ or cont_ids & pc_) and any(r_.oid in full for r_ in d_.get("all:" + side, [])) \
                                    and (cp.label.rstrip("*").endswith(T.label.rstrip("*")[-2:])):
                                ok = True
                    oid_ = f"transplant/{fs}/{f.name}/path{pi}/{T.label[-40:]}/{side}"
                    if ok:
                        rep.add(oid_, "unsat", "the removed token's trivia is read and carried into the result", nontrivial=False)
                        continue
                    # a comment test that is false on this path? (a) the named tests of trivia_util on the token / its container,
                    # (b) any Bool-valued call computed from this side's trivia (e.g. trivia.chain(..).any(trivia_is_comment))
                    guards = []
                    for t in hv:
                        last = t[1].split("::")[-1]
                        if not isinstance(t[3], Sym) or not z3.is_bool(t[3].t):
                            continue
                        snap = t[4] if len(t) > 4 else t[2]
                        if last in GUARDS and side in GUARDS[last]:
                            a0 = deref_val(ex, o.state, snap[0])
                            if isinstance(a0, Lazy):
                                a0c = canonical(ex, byoid, a0)
                                if a0c.oid == T.oid or a0c.oid in cont_ids or a0.oid in cont_ids or T.oid in P.of(a0):
                                    guards.append(t[3].t)
                        elif res is not None and last in ("any", "all", "is_some", "is_none", "is_empty") and any(res.oid in P.of(x) for x in snap):
                            guards.append(t[3].t if last in ("any", "is_some") else z3.Not(t[3].t))
                    # (c) a hand-over helper applied to the whole node / container: take_trailing_comments(expr) returns the comments after
                    # the expression's last token, take_leading_comments(expr) those before its first token
                    first_last = T.label.endswith(".0") if side == "leading_trivia" else T.label.endswith(".1")
                    for t in hv:
                        last = t[1].split("::")[-1]
                        want = {"leading_trivia": ("take_leading_comments", "get_leading_trivia"), "trailing_trivia": ("take_trailing_comments", "get_trailing_trivia")}[side]
                        if last in want and first_last and isinstance(t[3], Lazy) and t[3].oid in full:
                            a0 = (t[4] if len(t) > 4 else t[2])[0]
                            while isinstance(a0, RefV):
                                a0 = a0.v
                            if isinstance(a0, Lazy) and (a0.oid == node.oid or a0.oid in cont_ids):
                                ok = True
                    if ok:
                        rep.add(oid_, "unsat", "handed over by a take_*_comments helper applied to the enclosing node", nontrivial=False)
                        continue
                    if any(re.search(a_[0], f.name) and re.search(a_[1], T.label) and a_[2] == side for a_ in ACCEPTED):
                        rep.add(oid_, "unsat", "reviewed hand-over", nontrivial=False)
                        continue
                    bad = z3.And(*guards) if guards else z3.BoolVal(True)      # all comment tests true (or none made) and the trivia is dropped
                    if guards and not ses.reachable(list(o.pc) + [bad]):
                        rep.add(oid_, "unsat", "the token is dropped only on paths where its comment test is false")
                        continue
                    r, m = ses.obligation(oid_, list(o.pc), bad, "a token that does not reach the result hands its trivia over")
                    if r == "sat":
                        flagged.append((oid_, f"{f.name}: the {side.replace('_', ' ')} of the removed token {T.label[-30:]} is not carried into the result",
                                        "transplant", {"function": f.name, "token": T.label[-30:], "side": side}))
            fl_, n_ = replace_obligations(ses, rep, ex, o, P, hv, byoid, triv, full, {node.oid}, f, pi, fs)
            flagged += fl_
            n_tok += n_
    rep.bounds[f"transplant_functions_{fs}"] = n_fn
    rep.bounds[f"removed_tokens_{fs}"] = n_tok
    if n_fn < 60 and not getattr(c02, "_debug_single", False):
        raise Inconclusive(f"transplant: only {n_fn} formatter functions analysed for {fs}")
    return flagged


# nodes whose outer trivia is replaced wholesale (`expr.update_trailing_trivia(Replace(..))` discards the comments behind the expression)
NODE_REPLACE_TY = re.compile(r"(^|::)(Expression)$")


def replace_obligations(ses, rep, ex, o, P, hv, byoid, triv, full, input_oids, f, pi, fs):
    """R (see transplant): returns (flagged, number of replaced sides looked at)"""
    flagged, n_tok = [], 0
    # R: FormatTriviaType::Replace on one side of a token that comes from the input discards that side's trivia: the old trivia
    # must have been read into something that reaches the result, or a comment test on it is false on this path
    for ci, t in enumerate(hv):
        last = t[1].split("::")[-1]
        if last not in ("update_leading_trivia", "update_trailing_trivia", "update_trivia"):
            continue
        snap = t[4] if len(t) > 4 else t[2]
        X = deref_val(ex, o.state, snap[0])
        if not isinstance(X, Lazy) or not (TOKEN_TY.search(X.ty.strip()) or ("{closure" in f.name and "trailing" in last and NODE_REPLACE_TY.search(X.ty.strip()))) or not isinstance(t[3], Lazy) or t[3].oid not in full:
            continue
        X = canonical(ex, byoid, X)
        if not (input_oids & P.of(X)):
            continue
        sides = [("leading_trivia", snap[1]), ("trailing_trivia", snap[2])] if last == "update_trivia" and len(snap) > 2 else \
                [("leading_trivia" if "leading" in last else "trailing_trivia", snap[1])] if len(snap) > 1 else []
        # the token and the tokens it is a formatted copy of; the containers it was taken from
        equiv, conts, cur, steps = {X.oid}, set(), X, 0
        while cur is not None and steps < 12:
            steps += 1
            root = cur.oid
            while root in ex.parent:
                root = ex.parent[root][0]
                if root not in input_oids and root in byoid:
                    conts.add(root)
            if root in input_oids or root not in ex.havoc_calls:
                break
            nm, a = ex.havoc_calls[root]
            srcs = [x_ for x_ in (deref_val(ex, o.state, y_) for y_ in ex.havoc_snap.get(root, a)) if isinstance(x_, Lazy)
                    and not re.search(r"(Context|Shape|FormatTriviaType|Vec<.*>)$", x_.ty.strip())]
            if not srcs:
                break
            c0 = srcs[0]
            if c0.oid in input_oids:
                break
            if TOKEN_TY.search(c0.ty.strip()) and root == cur.oid:
                equiv.add(canonical(ex, byoid, c0).oid)      # cur = f(ctx, c0, ..): a formatted copy of token c0
            else:
                conts.add(c0.oid)
            cur = c0
        for side, payload in sides:
            pv = deref_val(ex, o.state, payload)
            if not (isinstance(pv, Agg) and pv.variant == "Replace"):
                continue
            n_tok += 1
            oid_ = f"replace/{fs}/{f.name}/path{pi}/call{ci}-{X.label[-30:]}/{side}"
            reads = [r_ for e_ in equiv for r_ in triv.get(e_, {}).get("all:" + side, [])]
            if any(r_.oid in full for r_ in reads):
                rep.add(oid_, "unsat", "the replaced trivia is read and carried into the result", nontrivial=False)
                continue
            guards = []
            for u in hv:
                l2 = u[1].split("::")[-1]
                if not isinstance(u[3], Sym) or not z3.is_bool(u[3].t):
                    continue
                sn2 = u[4] if len(u) > 4 else u[2]
                if l2 in GUARDS and side in GUARDS[l2]:
                    a0 = deref_val(ex, o.state, sn2[0])
                    if isinstance(a0, Lazy):
                        a0c = canonical(ex, byoid, a0)
                        if a0c.oid in equiv or a0c.oid in conts or a0.oid in conts or (equiv & P.of(a0)):
                            guards.append(u[3].t)
                elif reads and l2 in ("any", "all", "is_some", "is_none", "is_empty") and any(r_.oid in P.of(x) for r_ in reads for x in sn2):
                    guards.append(u[3].t if l2 in ("any", "is_some") else z3.Not(u[3].t))
            bad = z3.And(*guards) if guards else z3.BoolVal(True)
            if guards and not ses.reachable(list(o.pc) + [bad]):
                rep.add(oid_, "unsat", "the trivia is replaced only on paths where its comment test is false")
                continue
            r, m = ses.obligation(oid_, list(o.pc), bad, "trivia that is replaced was read into the result or holds no comment")
            if r == "sat":
                flagged.append((oid_, f"{f.name}: the {side.replace('_', ' ')} of {X.label[-30:]} is replaced without its comments being carried over",
                                "replace", {"function": f.name, "token": X.label[-30:], "side": side}))
    return flagged, n_tok


def replace_sites(ses, rep, fs):
    """R for the formatter functions transplant() does not visit (helpers that take tokens and hand back tokens / tuples, e.g.
    process_dot_name): every function of src/formatters whose MIR builds a FormatTriviaType::Replace"""
    flagged = []
    funcs = ses.mir("lib", fs)
    visited = {f.name for f, rt, ai in c02.struct_functions(funcs, None, by_value=True)
               if rt not in ("Shape", "Indent", "Token", "TokenReference", "String", "usize", "bool") and not SKIP.search(f.name)}
    n = 0
    for name, l in sorted(funcs.items()):
        for f in l:
            is_closure = "{closure" in f.name and "FormatTriviaType::Replace" in f.text and not re.search(r"^(trivia::|trivia_util::|shape::|context::|verify_ast|sort_requires)|<impl|::promoted\[", f.name)
            if is_closure and re.search(r"\(_1\.\d+: &mut ", f.text):
                # the closure writes into a variable it captured by mutable reference: what it reads can leave through that variable,
                # which this per-function view does not follow (e.g. `trailing_trivia = value.trailing_trivia()...` inside `pair.map(..)`)
                rep.extra.setdefault("closures_with_captured_writes_skipped", []).append(f.name)
                continue
            if not is_closure and (f.kind != "fn" or f.name in visited or SKIP.search(f.name) or "FormatTriviaType::Replace" not in f.text
                                   or not any(TOKEN_TY.search(t.strip()) or re.search(r"full_moon::|&(Expression|Stmt|Var|Suffix|Prefix)", t) for _, t in f.params)):
                continue
            # helpers that compute a replacement trivia list from tokens (handle_field_key_equals_comments ..) are followed: the reads happen in there
            ex = ses.executor("lib", fs, inline=lambda n_, fn, me=f: fn is not me and fn.kind == "fn" and "{closure" not in fn.name and "<impl" not in fn.name
                              and fn.ret and "Vec<Token>" in fn.ret.replace("full_moon::tokenizer::", "") and len(fn.blocks) <= 60
                              and fn.name.split("::")[-1] not in TRIVIA_READS)
            ex.max_block_visits = 1
            ex.inline_closure_calls = True
            try:
                args = lazy_args(ex, f)
                outs = ex.run(f, args)
            except Inconclusive as e:
                rep.extra.setdefault("not_encoded", []).append(f"{f.name}: {str(e)[:60]}")
                continue
            inputs = {(a.v if isinstance(a, RefV) else a).oid for a in args if isinstance(a.v if isinstance(a, RefV) else a, Lazy)}
            rep.fn(f)
            n += 1
            for pi, o in enumerate(outs):
                if o.kind != "return":
                    continue
                P = c02.Prov(ex, o)
                hv = [t for t in o.trace if t[0] == "havoc"]
                for t in hv:
                    for a in (t[4] if len(t) > 4 else t[2]):
                        deref_val(ex, o.state, a)
                byoid = {x.oid: x for x in ex.lazy_tab.values() if isinstance(x, Lazy)}
                byoid.update({t[3].oid: t[3] for t in hv if isinstance(t[3], Lazy)})
                triv = {}
                for t in hv:
                    last = t[1].split("::")[-1]
                    if last in TRIVIA_READS and isinstance(t[3], Lazy):
                        a0 = deref_val(ex, o.state, (t[4] if len(t) > 4 else t[2])[0])
                        if isinstance(a0, Lazy) and TOKEN_TY.search(a0.ty.strip()):
                            a0 = canonical(ex, byoid, a0)
                            triv.setdefault(a0.oid, {}).setdefault(TRIVIA_READS[last], t[3])
                            triv[a0.oid].setdefault("all:" + TRIVIA_READS[last], []).append(t[3])
                    if last == "surrounding_trivia" and isinstance(t[3], Lazy):          # Node::surrounding_trivia(): (leading, trailing) of the node's outer tokens
                        a0 = deref_val(ex, o.state, (t[4] if len(t) > 4 else t[2])[0])
                        if isinstance(a0, Lazy) and TOKEN_TY.search(a0.ty.strip()):
                            a0 = canonical(ex, byoid, a0)
                            for side_ in TRIVIA:
                                triv.setdefault(a0.oid, {}).setdefault(side_, t[3])
                                triv[a0.oid].setdefault("all:" + side_, []).append(t[3])
                full = P.of(o.value)
                fl_, n_ = replace_obligations(ses, rep, ex, o, P, hv, byoid, triv, full, inputs, f, pi, fs)
                flagged += fl_
    rep.bounds[f"replace_helper_functions_{fs}"] = n
    return flagged


CLASS = {"Single": {"S"}, "Multiline": {"M"}, "All": {"S", "M"}}


def comment_reads(ex, o, obj):
    """[(side, classes, result)] : comment-list reads (`*_comments`, `*_comments_search(search)`) on `obj` along path o"""
    out = []
    for t in o.trace:
        if t[0] != "havoc" or not isinstance(t[3], Lazy):
            continue
        last = t[1].split("::")[-1]
        m = re.fullmatch(r"(leading|trailing)_comments(_search)?", last)
        if not m:
            continue
        snap = t[4] if len(t) > 4 else t[2]
        a0 = deref_val(ex, o.state, snap[0])
        if a0 is not obj and not (isinstance(a0, Lazy) and isinstance(obj, Lazy) and a0.oid == obj.oid):
            continue
        cls = {"S", "M"}
        if m.group(2) and len(snap) > 1:
            sv = deref_val(ex, o.state, snap[1])
            cls = CLASS.get(getattr(sv, "variant", None), {"S", "M"})
        out.append((m.group(1), cls, t[3]))
    return out


def comment_partition(ses, rep, fs="full"):
    """P2  a function that hands some of a node's comments to its caller (to be placed elsewhere) and passes the node on to a formatter that
    keeps some of them in place: the two comment classes (single-line / block) are disjoint - otherwise a comment is emitted twice."""
    flagged = []
    funcs = ses.mir("lib", fs)
    kept = {}

    def kept_classes(g):
        """per parameter index: classes of the comments of that parameter that g itself reads and puts back on its result"""
        if g.name in kept:
            return kept[g.name]
        res = {}
        ex = ses.executor("lib", fs, inline=lambda n_, fn: False)
        ex.max_block_visits = 1
        try:
            args = lazy_args(ex, g)
            outs = ex.run(g, args)
        except Inconclusive:
            kept[g.name] = res
            return res
        for o in outs:
            if o.kind != "return":
                continue
            P = c02.Prov(ex, o)
            full = P.of(o.value)
            for i, a in enumerate(args):
                obj = a.v if isinstance(a, RefV) else a
                for side, cls, r_ in comment_reads(ex, o, obj):
                    if r_.oid in full:
                        res.setdefault((i, side), set()).update(cls)
        kept[g.name] = res
        return res
    n = 0
    for name, l in sorted(funcs.items()):
        for f in l:
            if f.kind != "fn" or SKIP.search(f.name) or not re.search(r"_comments(_search)?\b", f.text):
                continue
            ex = ses.executor("lib", fs, inline=lambda n_, fn: False)
            ex.max_block_visits = 1
            try:
                args = lazy_args(ex, f)
                outs = ex.run(f, args)
            except Inconclusive:
                continue
            seen = set()
            for pi, o in enumerate(outs):
                if o.kind != "return":
                    continue
                P = c02.Prov(ex, o)
                full = P.of(o.value)
                objs = {}
                for t in o.trace:
                    if t[0] == "havoc":
                        for a in (t[4] if len(t) > 4 else t[2]):
                            v = deref_val(ex, o.state, a)
                            if isinstance(v, Lazy):
                                objs[v.oid] = v
                for obj in objs.values():
                    mine = [(side, cls) for side, cls, r_ in comment_reads(ex, o, obj) if r_.oid in full]
                    if not mine:
                        continue
                    for t in o.trace:
                        if t[0] != "havoc" or not isinstance(t[3], Lazy) or t[3].oid not in full:
                            continue
                        g = ex.resolve(t[1])
                        if g is None or g is f or g.kind != "fn" or not g.name.split("::")[-1].startswith(("format_", "hang_")):
                            continue
                        snap = t[4] if len(t) > 4 else t[2]
                        for i, a in enumerate(snap):
                            v = deref_val(ex, o.state, a)
                            if not (isinstance(v, Lazy) and v.oid == obj.oid):
                                continue
                            for (j, side2), cls2 in kept_classes(g).items():
                                if j != i:
                                    continue
                                for side, cls in mine:
                                    if side == side2 and (f.name, g.name, side) not in seen:
                                        seen.add((f.name, g.name, side))
                                        n += 1
                                        oid = f"partition/{fs}/{f.name}/{g.name.split('::')[-1]}/{side}-comments-handed-on-vs-kept"
                                        r, m = ses.obligation(oid, list(o.pc), z3.BoolVal(bool(cls & cls2)), "the comments a function relocates and the ones its callee keeps in place are different classes")
                                        if r == "sat":
                                            flagged.append((oid, f"{f.name} relocates the {sorted(cls)} {side} comments of a node that {g.name.split('::')[-1]} formats keeping its "
                                                                 f"{sorted(cls2)} ones: the {sorted(cls & cls2)} comments come out twice", "partition", {"function": f.name}))
    rep.bounds[f"comment_partition_pairs_{fs}"] = n
    return flagged


def load_step(ses, rep):
    """L: load_token_trivia over a trivia list [t1, t2] of two symbolic tokens (next / peek modelled on the list):
    every comment / shebang element is handed to format_token exactly once and its token pushed exactly once, whatever its neighbour is;
    a whitespace element is never handed on."""
    flagged = []
    T = ses.enums("default")
    ex = ses.executor("lib", "default", inline=lambda n, f: False)
    ex.max_block_visits = 4
    ex.max_paths = 20000
    trivia = [ex.fresh_lazy("Token", "trivia1"), ex.fresh_lazy("Token", "trivia2")]
    ttype = [ex.fresh_lazy("TokenType", "trivia1.type"), ex.fresh_lazy("TokenType", "trivia2.type")]
    from ..summaries import opt_some, opt_none

    def h(ex_, st, callee, args, dty):
        c = canon(callee)
        if re.search(r"Peekable<.*> as Iterator>::next$", c):
            k = st.aux.get("it", 0)
            st.aux["it"] = k + 1
            return opt_some(dty, RefV(RefV(trivia[k]))) if k < 2 else opt_none(dty)
        if re.search(r"Peekable<.*>::peek$", c) or c.endswith("Peekable::peek"):
            k = st.aux.get("it", 0)
            return opt_some(dty, RefV(RefV(RefV(trivia[k])))) if k < 2 else opt_none(dty)
        if c.endswith("Token::token_type"):
            v = deref_val(ex_, st, args[0])
            while isinstance(v, RefV):
                v = v.v
            for i in (0, 1):
                if v is trivia[i]:
                    return RefV(ttype[i])
        return NotImplemented
    ex.hooks = [h]
    f = ses.need(ex, "load_token_trivia")
    outs = ex.run(f, lazy_args(ex, f))
    kinds = {n_: T.index("TokenType", n_) for n_ in ("SingleLineComment", "MultiLineComment", "Shebang", "Whitespace")}
    n = 0

    def unwrap(a1):
        for _ in range(12):
            if isinstance(a1, RefV):
                a1 = a1.v
            elif isinstance(a1, Ref):
                a1 = deref_val(ex, o.state, a1)
            elif isinstance(a1, Lazy) and a1 not in trivia and a1.oid in ex.parent and ex.parent[a1.oid][1] == ("deref",):
                a1 = next((x for x in list(ex.lazy_tab.values()) + [t[3] for t in o.trace if t[0] == "havoc"] if isinstance(x, Lazy) and x.oid == ex.parent[a1.oid][0]), a1)
            elif isinstance(a1, Lazy) and a1 not in trivia and a1.oid in ex.havoc_calls and ex.havoc_calls[a1.oid][0].split("::")[-1] in ("to_owned", "clone", "deref"):
                a1 = ex.havoc_snap[a1.oid][0]
            else:
                break
        return a1
    for pi, o in enumerate(outs):
        if o.kind != "return":
            continue
        n += 1
        fts = find_calls(o.trace, lambda n_: n_.split("::")[-1] == "format_token")
        pushes = find_calls(o.trace, lambda n_: re.search(r"Vec::<?.*>?::push$|Vec::push$", n_) is not None)
        for i in (0, 1):
            d = ex.discr(o.state, ttype[i])
            mine = [c for c in fts if unwrap(c[1][1]) is trivia[i]]
            pushed = [p for p in pushes if isinstance(deref_val(ex, o.state, p[1][1]), Lazy)
                      and any(ex.parent.get(deref_val(ex, o.state, p[1][1]).oid, (None,))[0] == getattr(c[2], "oid", None) for c in mine)]
            is_comment = z3.Or(*[d == z3.BitVecVal(kinds[k], 64) for k in ("SingleLineComment", "MultiLineComment", "Shebang")])
            if ses.reachable(list(o.pc) + [is_comment]):
                ok = len(mine) == 1 and len(pushed) == 1
                r, m = ses.obligation(f"load_token_trivia/path{pi}/element{i + 1}/comment-formatted-and-pushed-exactly-once", list(o.pc) + [is_comment], z3.BoolVal(not ok),
                                      "one format_token call on the comment, one push of its token - whatever the other element is")
                if r == "sat":
                    other = ex.discr(o.state, ttype[1 - i])
                    ok_ = m.eval(other, model_completion=True).as_long()
                    flagged.append((f"load_token_trivia/path{pi}/element{i + 1}",
                                    f"comment element {i + 1} of a trivia list is formatted {len(mine)} times and pushed {len(pushed)} times (other element: {T.name('TokenType', ok_)})",
                                    "load", {"function": "load_token_trivia"}))
            if ses.reachable(list(o.pc) + [d == z3.BitVecVal(kinds["Whitespace"], 64)]):
                r, m = ses.obligation(f"load_token_trivia/path{pi}/element{i + 1}/whitespace-creates-no-comment", list(o.pc) + [d == z3.BitVecVal(kinds["Whitespace"], 64)],
                                      z3.BoolVal(bool(mine)), "whitespace trivia is not passed on as a token")
                if r == "sat":
                    flagged.append((f"load_token_trivia/path{pi}/element{i + 1}/ws", "whitespace trivia is formatted as a token", "load", {"function": "load_token_trivia"}))
    if n == 0:
        raise Inconclusive("load_token_trivia: no returning path")
    rep.bounds["trivia_list_elements"] = 2
    rep.bounds["load_token_trivia_paths"] = n
    return flagged


def token_reference(ses, rep):
    """R"""
    flagged = []
    ex = ses.executor("lib", "default", inline=lambda n, f: False)
    f = ses.need(ex, "format_token_reference")
    args = lazy_args(ex, f)
    tok = args[1].v
    outs = [o for o in ex.run(f, args) if o.kind == "return"]
    for pi, o in enumerate(outs):
        news = find_calls(o.trace, lambda n_: n_.endswith("TokenReference::new"))
        if not news:
            flagged.append((f"format_token_reference/path{pi}", "format_token_reference does not build its result with TokenReference::new", "tokref", {}))
            continue
        P = c02.Prov(ex, o)
        acc = {}
        for t in o.trace:
            if t[0] == "havoc" and t[1].split("::")[-1] in TRIVIA + ("token",) and "TokenReference" in t[1]:
                acc[t[1].split("::")[-1]] = t[3]
        slots = list(zip(("leading_trivia", "token", "trailing_trivia"), news[-1][1]))
        for name, val in slots:
            src = acc.get(name)
            others = {v_.oid for k_, v_ in acc.items() if k_ != name and isinstance(v_, Lazy)}
            ok = src is not None and isinstance(src, Lazy) and src.oid in P.of(val, stop=others)
            r, m = ses.obligation(f"format_token_reference/path{pi}/{name}", list(o.pc), z3.BoolVal(not ok), f"the result's {name} is computed from the input's {name}")
            if r == "sat":
                flagged.append((f"format_token_reference/path{pi}/{name}", f"format_token_reference: the {name} of the result does not come from the input's {name}", "tokref", {}))
    return flagged


# ------------------------------------------------------------------------------------------------ replay: comment census
# collapse guard -> the parts of the node that end up in the MIDDLE of the collapsed line: (accessor chain, which side's comments)
# a `--` comment there would swallow the code that follows it on the line
COLLAPSE_GUARDS = {
    "is_if_guard": [("then_token", "any"), ("block", "any")],
    "should_collapse_function_body": [("parameters_parentheses", "trailing"), ("block", "any"), ("end_token", "leading")],
}
COMMENT_TESTS = re.compile(r"(^|::)(contains_comments|has_leading_comments|has_trailing_comments|trivia_is_comment|any)(::<.*)?$")


def collapse_guards(ses, rep, fs="full"):
    """H  a statement is collapsed onto one line only if the guard looked for comments in every part that lands mid-line:
    on every path on which the guard returns true, a comment test was applied to (something read from) each listed part and it said no."""
    flagged = []
    for gname, parts in COLLAPSE_GUARDS.items():
        ex = ses.executor("lib", fs, inline=lambda n, fn: False)
        ex.max_block_visits = 2
        fn = ses.need(ex, gname)
        args = lazy_args(ex, fn)
        outs = ex.run(fn, args)
        rep.fn(fn)
        n = 0
        for pi, o in enumerate(outs):
            if o.kind != "return" or not isinstance(o.value, Sym) or not ses.reachable(list(o.pc) + [o.value.t]):
                continue
            n += 1
            P = c02.Prov(ex, o)
            acc = {}
            for t in o.trace:
                if t[0] == "havoc" and isinstance(t[3], Lazy):
                    acc.setdefault(t[1].split("::")[-1], []).append(t[3].oid)
            tests = [(t, P.of(t[4][0] if len(t) > 4 and t[4] else (t[2][0] if t[2] else None))) for t in o.trace
                     if t[0] == "havoc" and COMMENT_TESTS.search(t[1].split("::<")[0]) and isinstance(t[3], Sym) and z3.is_bool(t[3].t)]
            for part, side in parts:
                oids = set(acc.get(part, []))
                rel = [t for t, pv in tests if pv & oids]
                # the guard is true on this path although none of the tests on this part is known to have said `no comment`
                bad = z3.BoolVal(True) if not rel else z3.And(*[t[3].t for t in rel])
                oid = f"collapse/{fs}/{gname}/path{pi}/comments-of-{part}-tested"
                r, m = ses.obligation(oid, list(o.pc) + [o.value.t], bad, f"{gname} is true only if {part} carries no comment")
                if r == "sat":
                    flagged.append((oid, f"{gname} can be true although `{part}` carries a comment ({side} side): the collapsed line would continue after a `--` comment",
                                    "collapse", {"function": gname, "part": part}))
        if n == 0:
            raise Inconclusive(f"{gname}: no path returns true")
    return flagged


def comments_of(src):
    out = []
    pos = 0
    if src.startswith("#!"):
        e = src.index("\n") if "\n" in src else len(src)
        out.append(("shebang", src[:e].rstrip()))
        pos = e
    while pos < len(src):
        m = c02.TOK.match(src, pos)
        if not m:
            pos += 1
            continue
        pos = m.end()
        if m.group("lcomment"):
            t = m.group("lcomment")
            out.append(("block", len(m.group("ceq")), t.replace("\r\n", "\n")))
        elif m.group("comment"):
            out.append(("line", m.group("comment").rstrip()))
    return out


SCENARIOS = {
    "paren-removal": ["local x = ( --[[c1]] y )\n", "local x = (y\n-- c2\n)\n", "local x = --[[a]] ( --[[b]] y --[[c]] ) --[[d]]\nlocal z = 1\n",
                      "f(( --[[c]] y ))\n", "x = (( --[[c]] y ))\n", "local t = { ( --[[k]] v ) }\n", "return ( --[[r]] v )\n",
                      "local x = aaaaaaaaaaaaaaaaaaaaaaaaaaaaaaaaaaaaaaa + --[[a]] (bbbbbbbbbbbbbbbbbbbbbbbbbbbbbbbbbbbbbbbbbbbb) --[[d]] + cccccccccccccccccccccccccccccccccccccccccccccccc\n",
                      "local x = aaaaaaaaaaaaaaaaaaaaaaaaaaaaaaaaaaaaaaa + ( --[[b]] bbbbbbbbbbbbbbbbbbbbbbbbbbbbbbbbbbbbbbbbbbbb --[[c]] ) + cccccccccccccccccccccccccccccccccccccccccccccccc\n"],
    "condition": ["if ( --[[c]] y ) then\nend\n", "if (y --[[c]]) then end\n", "while ( --[[w]] y ) do end\n", "repeat until ( --[[u]] y )\n",
                  "if (y\n-- c\n) then end\n"],
    "semicolon": ["local a = 1; -- c1\nlocal b = 2 --[[c2]] ; --[[c3]]\nf(); -- c4\n", "do local a = 1 --[[x]]; end\n", "return 1 --[[r]] ; -- tail\n", "local function f()\n\treturn list[1]\n\t--[==[ own line ]==]\n\t;\nend\n",
                  "while true do\n\tbreak\n\t--[[ b ]]\n\t;\nend\n", "local a = 1\n-- own\n;\nlocal b = 2\n"],
    "call-sugar": ["f( --[[a]] 'x' --[[b]] )\n", "f( --[[a]] { 1 } --[[b]] )\n", "f --[[a]] 'x' --[[b]]\n", "f --[[a]] { 1 } --[[b]]\n", "f( -- a\n'x')\n", "local y = f\n-- a\n('x')\n", "f('x'\n-- c\n)\n", "f({ 1 }\n-- c\n)\n"],
    "table": ["local t = {\n\t[1] = \"one\" --[[ first ]],\n\t[\"two\"] = 2 --[==[ second ]==], -- after comma\n\tthree = 3 --[[ third ]],\n\t4 --[[ fourth ]],\n\t[last] = w --[=[ sixth ]=]\n}\n",
              "local t = { -- a\n\t1, -- b\n\t2 --[[c]], --[[d]]\n\t-- e\n}\n", "local t = { --[[a]] 1 --[[b]], --[[c]] 2 --[[d]] }\n", "local t = { --[[only]] }\n"],
    "functions": ["local function f( --[[a]] x --[[b]], --[[c]] y --[[d]] ) --[[e]]\n\t-- body\nend -- tail\n", "call( --[[a]] 1, --[[b]] 2 --[[c]] )\n",
                  "local f = function( --[[p]] ) --[[q]] end\n"],
    "binops": ["local x = a --[[1]] + --[[2]] b --[[3]]\n", "local x = a -- one\n\t+ b -- two\n\t+ c\n", "local x = - --[[u]] a\n", "local x = not --[[n]] a\n"],
    "statements": ["for --[[a]] i --[[b]] = --[[c]] 1 --[[d]], --[[e]] 2 --[[f]] do --[[g]]\nend --[[h]]\n",
                   "if --[[a]] x --[[b]] then --[[c]]\n\tf()\nelseif --[[d]] y --[[e]] then --[[f]]\n\tg()\nelse --[[g]]\n\th()\nend --[[h]]\n",
                   "local --[[a]] x --[[b]] = --[[c]] 1 --[[d]]\n", "x --[[a]] , --[[b]] y --[[c]] = --[[d]] 1 --[[e]] , --[[f]] 2\n",
                   "while --[[a]] x --[[b]] do --[[c]]\nend\nrepeat --[[d]]\nuntil --[[e]] x --[[f]]\n", "return --[[a]] 1 --[[b]] , --[[c]] 2 --[[d]]\n",
                   "function --[[a]] t --[[b]] . --[[c]] f --[[d]] : --[[e]] m --[[f]] ( --[[g]] ) --[[h]]\nend\n",
                   "goto_label = 1 -- c\n-- only comment at end\n"],
    "index": ["local x = foo\n  -- before dot\n  . --[[ between ]] bar\nobj:first()\n  -- before colon\n  : --[==[ level two ]==] second()\n  :third() -- end\n",
              "x = a --[[1]] . --[[2]] b --[[3]] [ --[[4]] 1 --[[5]] ] --[[6]]\n", "x = a --[[1]] : --[[2]] m --[[3]] ( --[[4]] ) --[[5]]\n"],
}
SCENARIOS["collapse"] = ["if x then -- c\n\treturn\nend\n", "if x then --[[b]] return end\n", "if x then\n\treturn -- c\nend\n", "if x then\n\tf() -- c\nend\n",
                         "local f = function() -- c\n\treturn 1\nend\n", "local f = function()\n\treturn 1\n\t-- c\nend\n", "local f = function(a -- c\n)\n\treturn 1\nend\n",
                         "local f = function()\n\treturn 1 -- c\nend\n", "if x then\n\tbreak\n\t-- c\nend\n"]
SCENARIOS["collapse"] += ["if not x then\n\treturn; -- nothing to do\nend\n", "if x then\n\tf(); --[[b]]\nend\n", "while true do\n\tif x then\n\t\tbreak ; -- c\n\tend\nend\n",
                          "local f = function()\n\treturn 1; -- c\nend\n", "if x then\n\tf() --[[x]] ; -- c\nend\n", "local g = function()\n\tcall() ; --[[ after semi ]]\nend\n"]
SCENARIOS["multi-value"] = ["local width, height = 0, first_long_operand_name + second_long_operand_name + third_long_operand_name + fourth_long_operand_name_x -- note\n",
                            "return first_value_name, second_long_operand_name + third_long_operand_name + fourth_long_operand_name + fifth_long_operand_name_xyz -- note\n",
                            "alpha, beta = 1, first_long_operand_name + second_long_operand_name + third_long_operand_name + fourth_long_operand_name_x_y_z -- note\n",
                            "local a, b = first_long_operand_name + second_long_operand_name + third_long_operand_name + fourth_long_operand_name_x_y, 2 -- tail\n",
                            "local a, b = f(function()\n\treturn 1\nend), second_long_operand_name + third_long_operand_name + fourth_long_operand_name_abcdefgh -- tail\n"]
LUAU_SCENARIOS = {
    "luau-type-declaration": ["type Pair --[[ name ]] <K, V> --[[ generics ]] = { key: K, value: V }\n", "export type Callback --[[ exported ]] <T...> --[[ pack ]] = (T...) -> ()\n",
                              "type Box<T> --[[ after generics ]]\n\t= T\n", "type Wrapped --[[ w1 ]] < --[[ w2 ]] T> = { T }\n", "type Plain<T> --[[ plain ]] = T\n",
                              "type NoGen --[[ a ]] = --[[ b ]] number\n", "type G --[[1]] < --[[2]] T --[[3]] > --[[4]] = --[[5]] T --[[6]]\n"],
    "luau-types": ["local x: --[[a]] number --[[b]] = 1\n", "local function f(a: --[[p]] number --[[q]], b: string --[[r]]): --[[s]] number --[[t]]\nend\n",
                   "type U = --[[1]] A --[[2]] | --[[3]] B --[[4]]\n", "type T = { --[[k]] field: --[[v]] number --[[w]], [string]: number --[[x]] }\n",
                   "local y = v :: --[[c]] number --[[d]]\n"],
}
SCENARIOS["trivia-lists"] = ["--[[ a ]]--[[ b ]]\nlocal M = {}\n", "--[=[a]=]-- b\nlocal x = 1\n", "local y = 2 --[[f]]--[[g]]\n", "local z = 3\n--[[ e1 ]]--[[ e2 ]]",
                             "-- one\n-- two\n\n\n-- three\nlocal q = 1 -- four\n", "#!/usr/bin/lua\n-- after shebang\nlocal s = 1\n"]
FUNC2SCEN = {"load_token_trivia": ["trivia-lists"], "format_expression_internal": ["paren-removal", "binops"], "format_hanging_expression_": ["paren-removal", "binops"], "format_function_args": ["call-sugar", "functions"], "format_block": ["semicolon", "statements"],
             "format_if": ["condition", "statements"], "is_if_guard": ["collapse"], "format_type_declaration": ["luau-type-declaration"], "should_collapse_function_body": ["collapse"], "format_while_block": ["condition", "statements"], "format_repeat_block": ["condition", "statements"],
             "format_table_constructor": ["table"], "format_index": ["index"], "process_dot_name": ["index"], "format_field": ["table"], "remove_condition_parentheses": ["condition"]}


GENERIC_GROUPS = ("statements", "functions", "table", "index", "binops", "semicolon", "corpus", "luau-types", "luau-type-declaration", "multi-value", "collapse")


def census_battery(names=None):
    binp = common.native_build("full")
    fails = []
    progs = []
    for k, l in SCENARIOS.items():
        if names is None or k in names:
            progs += [(f"{k}/{i}", "Lua51", s_) for i, s_ in enumerate(l)]
    for k, l in LUAU_SCENARIOS.items():
        if names is None or k in names:
            progs += [(f"{k}/{i}", "Luau", s_) for i, s_ in enumerate(l)]
    if names is None or "corpus" in names:
        progs += [(n_, syn, src) for n_, syn, src in luacorpus.programs("full") if "--" in src]
    for name, syn, src in progs:
        for cfg in ([], ["--column-width", "40"], ["--column-width", "20"], ["--collapse-simple-statement", "Always"], ["--collapse-simple-statement", "ConditionalOnly"], ["--collapse-simple-statement", "FunctionOnly"],
                    ["--call-parentheses", "None"], ["--call-parentheses", "Input"], ["--line-endings", "Windows"]):
            r = subprocess.run([binp, "--syntax", syn] + cfg + ["-"], input=src.encode(), capture_output=True, timeout=60)
            if r.returncode != 0:
                continue
            out = r.stdout.decode("utf-8", "replace")
            a, b = sorted(map(repr, comments_of(src))), sorted(map(repr, comments_of(out)))
            if a != b:
                lost = [x for x in a if x not in b or a.count(x) > b.count(x)]
                extra = [x for x in b if x not in a or b.count(x) > a.count(x)]
                fails.append((name, f"{name} {cfg}: comments lost {lost[:3]} / created {extra[:3]}", {"source": src, "flags": ["--syntax", syn] + cfg, "output": out}))
    return fails


def run(ses, rep):
    from . import c10
    rep.assumptions += ["induction hypothesis: a callee that receives a token or a node returns it with all its comments (each formatter is itself checked)",
                        "provenance is structural: trivia that is read from the removed token and flows into the returned node counts as carried over",
                        "the comment tests of trivia_util (has_*_comments, contains_comments) are exact for the token / node they are given"]
    rep.outside += ["comments moved between tokens of a Punctuated list built by format_punctuated* (moved, not dropped: covered by the census replay only)",
                    "duplication through double formatting of a subtree whose first result is discarded", "require sorting (C12)"]
    flagged = []
    flagged += transplant(ses, rep, "full")
    if rep.tier != "quick":
        flagged += transplant(ses, rep, "default")
    flagged += replace_sites(ses, rep, "full")
    flagged += comment_partition(ses, rep, "full")
    flagged += load_step(ses, rep)
    flagged += token_reference(ses, rep)
    flagged += collapse_guards(ses, rep)
    # X: comment text (C10's kernel, restricted to the comment kinds) - its flagged entries are replayed there; here they are obligations
    N = 5 if rep.tier == "quick" else 7
    for fl in c10.k3(ses, rep, N):
        if fl[3].get("kind") in ("SingleLineComment", "MultiLineComment", "Shebang"):
            flagged.append((fl[0], fl[1], "text", fl[3]))
    rep.samples.append({"flagged": [(f[0], f[1]) for f in flagged][:8]})
    if not flagged:
        return
    cache = {}
    for oid, what, kind, info in flagged:
        names = tuple(FUNC2SCEN.get(info.get("function"), [])) or GENERIC_GROUPS
        if names not in cache:
            cache[names] = census_battery(names)
        fails = cache[names]
        if fails:
            name, v, rec = fails[0]
            role = {"obligation": kind, **{k: v_ for k, v_ in info.items() if k in ("function", "side")}}
            if kind == "transplant":
                role["token"] = re.sub(r"\d+", "", info.get("token", ""))
            st = rep.violation(role, {"what": what, "observed": v, **rec})
            rep.add(oid, st, f"{what}; native: {v}")
        else:
            rep.add(oid, "inconclusive", f"{what}: the comment census shows no lost or created comment on the native build")


def fallback(rep):
    """kernels undecided: the comment census over every scenario group is run; only a lost / created comment is reported"""
    for name, v, rec in census_battery(None)[:3]:
        rep.add(f"battery/{name}", rep.violation({"obligation": "battery-after-undecided-kernel", "scenario": name.split("/")[0]}, {"what": "kernel undecided; comment census", "observed": v, **rec}), v)


def replay(path):
    fails = census_battery(None)
    for name, v, rec in fails[:5]:
        print(v)
    if fails:
        print(f"VIOLATION property=C03 replay={path}")
        return 1
    print("comment census: every comment of every program appears exactly once in the output")
    return 0


if __name__ == "__main__":
    for name, v, rec in census_battery(None):
        print(v)

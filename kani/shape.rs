// Kani harnesses for src/shape.rs (appended to a scratch copy of the file as a child module, so private fields are visible).
// Bounds (part of the claim): indent_width <= 255, block/additional indent levels <= 2^16, offsets and added widths <= 2^32,
// column_width: any usize. Checked: no arithmetic overflow panic inside these bounds, the arithmetic identities of the
// width bookkeeping (what the layout decisions of C06/C07 rely on) and that the builder methods change only their own field.
#[cfg(kani)]
mod verif_kani {
    use super::*;

    fn any_indent() -> Indent {
        let i = Indent {
            indent_width: kani::any(),
            block_indent: kani::any(),
            additional_indent: kani::any(),
        };
        kani::assume(i.indent_width <= 255);
        kani::assume(i.block_indent <= 1 << 16);
        kani::assume(i.additional_indent <= 1 << 16);
        i
    }

    fn any_shape() -> Shape {
        let s = Shape {
            indent: any_indent(),
            offset: kani::any(),
            column_width: kani::any(),
            simple_heuristics: kani::any(),
        };
        kani::assume(s.offset <= 1 << 32);
        s
    }

    fn same_indent(a: &Indent, b: &Indent) -> bool {
        a.indent_width == b.indent_width && a.block_indent == b.block_indent && a.additional_indent == b.additional_indent
    }

    #[kani::proof]
    fn verif_shape_width_arithmetic() {
        let s = any_shape();
        let w: usize = kani::any();
        kani::assume(w <= 1 << 32);
        let levels = s.indent.block_indent + s.indent.additional_indent;
        let iw = levels * s.indent.indent_width;
        assert!(s.indent().indent_width() == iw);
        assert!(s.used_width() == iw + s.offset);
        assert!(s.over_budget() == (iw + s.offset > s.column_width));
        let t = s.add_width(w);
        assert!(t.offset == s.offset + w);
        assert!(same_indent(&t.indent, &s.indent) && t.column_width == s.column_width && t.simple_heuristics == s.simple_heuristics);
        assert!(t.over_budget() == (iw + s.offset + w > s.column_width));
        // Add<usize> is add_width
        let u = s + w;
        assert!(u.offset == t.offset && same_indent(&u.indent, &s.indent) && u.column_width == s.column_width);
        // monotone: more width never brings a line back under budget
        assert!(!s.over_budget() || t.over_budget());
    }

    #[kani::proof]
    fn verif_shape_builders_touch_one_field() {
        let s = any_shape();
        let r = s.reset();
        assert!(r.offset == 0 && same_indent(&r.indent, &s.indent) && r.column_width == s.column_width && r.simple_heuristics == s.simple_heuristics);
        let c: usize = kani::any();
        let wc = s.with_column_width(c);
        assert!(wc.column_width == c && wc.offset == s.offset && same_indent(&wc.indent, &s.indent) && wc.simple_heuristics == s.simple_heuristics);
        let inf = s.with_infinite_width();
        assert!(!inf.over_budget());
        assert!(inf.offset == s.offset && same_indent(&inf.indent, &s.indent));
        let h = s.with_simple_heuristics();
        assert!(h.using_simple_heuristics() && h.offset == s.offset && h.column_width == s.column_width && same_indent(&h.indent, &s.indent));
        assert!(s.using_simple_heuristics() == s.simple_heuristics);
        let b = s.increment_block_indent();
        assert!(b.indent.block_indent == s.indent.block_indent + 1 && b.indent.additional_indent == s.indent.additional_indent);
        assert!(b.indent.indent_width == s.indent.indent_width && b.offset == s.offset && b.column_width == s.column_width && b.simple_heuristics == s.simple_heuristics);
        let a = s.increment_additional_indent();
        assert!(a.indent.additional_indent == s.indent.additional_indent + 1 && a.indent.block_indent == s.indent.block_indent);
        assert!(a.indent.indent_width == s.indent.indent_width && a.offset == s.offset && a.column_width == s.column_width && a.simple_heuristics == s.simple_heuristics);
        let i2 = any_indent();
        let wi = s.with_indent(i2);
        assert!(same_indent(&wi.indent, &i2) && wi.offset == s.offset && wi.column_width == s.column_width && wi.simple_heuristics == s.simple_heuristics);
    }

    #[kani::proof]
    fn verif_indent_builders() {
        let i = any_indent();
        let n: usize = kani::any();
        kani::assume(n <= 1 << 16);
        let a = i.add_indent_level(n);
        assert!(a.additional_indent == i.additional_indent + n && a.block_indent == i.block_indent && a.indent_width == i.indent_width);
        let w = i.with_additional_indent(n);
        assert!(w.additional_indent == n && w.block_indent == i.block_indent && w.indent_width == i.indent_width);
        assert!(i.block_indent() == i.block_indent && i.additional_indent() == i.additional_indent && i.configured_indent_width() == i.indent_width);
        assert!(i.increment_block_indent().block_indent == i.block_indent + 1);
        assert!(i.increment_additional_indent().additional_indent == i.additional_indent + 1);
    }
}

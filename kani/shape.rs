// Kani harness for src/shape.rs (appended to a scratch copy of the file as a child module, so private fields are visible).
// Property C07 (the formatter never panics): every method of Shape / Indent that does arithmetic is run on arbitrary values inside the
// stated bounds; Kani's own checks (arithmetic overflow, which panics in a debug build; unwrap / index / division checks) are the
// assertions. Nothing is asserted about WHAT the methods compute: the width rule itself is not part of any property.
// Bounds (part of the claim): indent_width <= 255, block / additional indent levels <= 2^16, offsets and added widths <= 2^32,
// column_width: any usize.
#[cfg(kani)]
mod verif_kani {
    use super::*;

    fn any_indent() -> Indent {
        let i = Indent {
            indent_width: kani::any(),
            block_indent: kani::any(),
            additional_indent: kani::any(),
        };
        kani::assume(i.indent_width <= 255);
        kani::assume(i.block_indent <= 1 << 16);
        kani::assume(i.additional_indent <= 1 << 16);
        i
    }

    fn any_shape() -> Shape {
        let s = Shape {
            indent: any_indent(),
            offset: kani::any(),
            column_width: kani::any(),
            simple_heuristics: kani::any(),
        };
        kani::assume(s.offset <= 1 << 32);
        s
    }

    #[kani::proof]
    fn verif_shape_arithmetic_never_panics() {
        let s = any_shape();
        let w: usize = kani::any();
        kani::assume(w <= 1 << 32);
        let _ = s.indent().indent_width();
        let _ = s.used_width();
        let _ = s.over_budget();
        let t = s.add_width(w);
        let _ = t.used_width();
        let _ = t.over_budget();
        let u = s + w;
        let _ = u.over_budget();
        let _ = s.reset().over_budget();
        let _ = s.with_infinite_width().over_budget();
        let c: usize = kani::any();
        let _ = s.with_column_width(c).over_budget();
        let _ = s.with_simple_heuristics().using_simple_heuristics();
        let b = s.increment_block_indent();
        let _ = b.used_width();
        let a = s.increment_additional_indent();
        let _ = a.used_width();
        let _ = s.with_indent(any_indent()).used_width();
    }

    #[kani::proof]
    fn verif_indent_arithmetic_never_panics() {
        let i = any_indent();
        let n: usize = kani::any();
        kani::assume(n <= 1 << 16);
        let _ = i.add_indent_level(n).indent_width();
        let _ = i.with_additional_indent(n).indent_width();
        let _ = i.increment_block_indent().indent_width();
        let _ = i.increment_additional_indent().indent_width();
        let _ = (i.block_indent(), i.additional_indent(), i.configured_indent_width());
    }
}

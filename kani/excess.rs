// Kani harnesses for src/formatters/expression.rs::check_excess_parentheses (appended to a scratch copy of the file).
// Symbolic: the expression kind inside the parentheses (a unary operator over a name - all unary operators of the feature set -,
// a binary operator, `...`, a name, a number, a nested parenthesised name, a unary operator over a parenthesised name), the
// ExpressionContext (all values). Oracle, written from the Lua grammar - only what the property demands: parentheses are NOT excess around
//   - `...` (they truncate the value list),
//   - a unary operation when it is the left operand of `^` (BinaryLHSExponent).
// Whether other parentheses are kept or dropped is style: not asserted. All paths must return (no panic).
#[cfg(kani)]
mod verif_kani {
    use super::*;
    use full_moon::ast::span::ContainedSpan;
    use full_moon::tokenizer::Token;

    fn sym(s: Symbol) -> TokenReference {
        TokenReference::new(vec![], Token::new(TokenType::Symbol { symbol: s }), vec![])
    }
    fn name() -> Expression {
        Expression::Var(Var::Name(TokenReference::new(vec![], Token::new(TokenType::Identifier { identifier: "a".into() }), vec![])))
    }
    fn number() -> Expression {
        Expression::Number(TokenReference::new(vec![], Token::new(TokenType::Number { text: "1".into() }), vec![]))
    }
    fn paren(e: Expression) -> Expression {
        Expression::Parentheses { contained: ContainedSpan::new(sym(Symbol::LeftParen), sym(Symbol::RightParen)), expression: Box::new(e) }
    }
    fn any_context() -> (u8, ExpressionContext) {
        let c: u8 = kani::any();
        #[cfg(feature = "luau")]
        { kani::assume(c < 6); }
        #[cfg(not(feature = "luau"))]
        { kani::assume(c < 5); }
        (c, match c {
            0 => ExpressionContext::Standard,
            1 => ExpressionContext::Prefix,
            2 => ExpressionContext::UnaryOrBinary,
            3 => ExpressionContext::BinaryLHS,
            4 => ExpressionContext::BinaryLHSExponent,
            #[cfg(feature = "luau")]
            _ => ExpressionContext::TypeAssertion,
            #[cfg(not(feature = "luau"))]
            _ => ExpressionContext::BinaryLHSExponent,
        })
    }
    fn any_unop() -> (u8, UnOp) {
        let k: u8 = kani::any();
        #[cfg(feature = "lua53")]
        { kani::assume(k < 4); }
        #[cfg(not(feature = "lua53"))]
        { kani::assume(k < 3); }
        (k, match k {
            0 => UnOp::Minus(sym(Symbol::Minus)),
            1 => UnOp::Not(sym(Symbol::Not)),
            2 => UnOp::Hash(sym(Symbol::Hash)),
            #[cfg(feature = "lua53")]
            _ => UnOp::Tilde(sym(Symbol::Tilde)),
            #[cfg(not(feature = "lua53"))]
            _ => UnOp::Hash(sym(Symbol::Hash)),
        })
    }

    #[kani::proof]
    #[kani::unwind(4)]
    fn verif_excess_unary() {
        let (k, unop) = any_unop();
        let (c, ctx) = any_context();
        let wrapped: bool = kani::any();          // operand itself parenthesised: -(a)
        let operand = if wrapped { paren(name()) } else { name() };
        let e = Expression::UnaryOperator { unop, expression: Box::new(operand) };
        let r = check_excess_parentheses(&e, ctx);
        // the only place where dropping the parentheses around a unary operation changes the grouping: the left operand of `^`
        // ((-a) ^ b is not -a ^ b). Everywhere else keeping or dropping them is a matter of style - nothing is asserted.
        if c == 4 { assert!(!r); }
        let _ = k;
        std::mem::forget(e);
    }

    #[kani::proof]
    #[kani::unwind(4)]
    fn verif_excess_atoms() {
        let (_c, ctx) = any_context();
        let k: u8 = kani::any();
        kani::assume(k < 5);
        let e = match k {
            0 => name(),
            1 => number(),
            2 => paren(name()),
            3 => Expression::Symbol(sym(Symbol::Ellipsis)),
            _ => Expression::BinaryOperator { lhs: Box::new(name()), binop: BinOp::Plus(sym(Symbol::Plus)), rhs: Box::new(number()) },
        };
        let r = check_excess_parentheses(&e, ctx);
        // `(...)` truncates the value list: never excess. (Names, numbers, nested parentheses and binary operations: no demand.)
        if k == 3 { assert!(!r); }
        std::mem::forget(e);
    }
}

// Kani harnesses for src/context.rs (appended to a scratch copy of the file).
// Symbolic: the configuration enums (all variants), no_call_parentheses, indent level <= 3, indent_width <= 4.
// Oracles are the README option tables, written out here; texts are compared byte by byte.
#[cfg(kani)]
#[allow(deprecated)]
mod verif_kani {
    use super::*;
    use full_moon::tokenizer::TokenType;

    fn regex_new_stub(_re: &str) -> Result<regex::Regex, regex::Error> { Err(regex::Error::CompiledTooBig(0)) }

    fn ws_text(t: &Token) -> Option<&str> {
        match t.token_type() {
            TokenType::Whitespace { characters } => Some(characters.as_str()),
            _ => None,
        }
    }
    fn bytes_eq(a: &[u8], b: &[u8]) -> bool {
        if a.len() != b.len() { return false; }
        let mut i = 0;
        while i < a.len() { if a[i] != b[i] { return false; } i += 1; }
        true
    }
    fn all_bytes(a: &[u8], c: u8, n: usize) -> bool {
        if a.len() != n { return false; }
        let mut i = 0;
        while i < a.len() { if a[i] != c { return false; } i += 1; }
        true
    }

    #[kani::proof]
    #[kani::unwind(6)]
    fn verif_space_after_function_names() {
        let k: u8 = kani::any();
        kani::assume(k < 4);
        let v = match k { 0 => SpaceAfterFunctionNames::Never, 1 => SpaceAfterFunctionNames::Definitions, 2 => SpaceAfterFunctionNames::Calls, _ => SpaceAfterFunctionNames::Always };
        let mut c = Config::default();
        c.space_after_function_names = v;
        let ctx = Context::new(c, None);
        let d = create_function_definition_trivia(&ctx);
        let f = create_function_call_trivia(&ctx);
        let dt = ws_text(&d).expect("whitespace").as_bytes();
        let ft = ws_text(&f).expect("whitespace").as_bytes();
        let want_def = k == 1 || k == 3;
        let want_call = k == 2 || k == 3;
        assert!(bytes_eq(dt, if want_def { b" " } else { b"" }));
        assert!(bytes_eq(ft, if want_call { b" " } else { b"" }));
        std::mem::forget(d); std::mem::forget(f); std::mem::forget(ctx);
    }

    #[kani::proof]
    #[kani::unwind(6)]
    fn verif_newline_trivia() {
        let win: bool = kani::any();
        let mut c = Config::default();
        c.line_endings = if win { LineEndings::Windows } else { LineEndings::Unix };
        let s = line_ending_character(c.line_endings);
        assert!(bytes_eq(s.as_bytes(), if win { b"\r\n" } else { b"\n" }));
        let ctx = Context::new(c, None);
        let t = create_newline_trivia(&ctx);
        let tt = ws_text(&t).expect("whitespace").as_bytes();
        assert!(bytes_eq(tt, if win { b"\r\n" } else { b"\n" }));
        std::mem::forget(t); std::mem::forget(s); std::mem::forget(ctx);
    }

    #[kani::proof]
    #[kani::unwind(14)]
    fn verif_indent_trivia() {
        let tabs: bool = kani::any();
        let level: usize = kani::any();
        let width: usize = kani::any();
        kani::assume(level <= 3);
        kani::assume(width >= 1 && width <= 4);
        let mut c = Config::default();
        c.indent_type = if tabs { IndentType::Tabs } else { IndentType::Spaces };
        c.indent_width = width;
        let ctx = Context::new(c, None);
        let t = create_plain_indent_trivia(&ctx, level);
        let tt = ws_text(&t).expect("whitespace").as_bytes();
        if tabs { assert!(all_bytes(tt, b'\t', level)); } else { assert!(all_bytes(tt, b' ', level * width)); }
        std::mem::forget(t); std::mem::forget(ctx);
    }

    #[kani::proof]
    fn verif_option_predicates() {
        let k: u8 = kani::any();
        kani::assume(k < 5);
        let cp = match k { 0 => CallParenType::Always, 1 => CallParenType::NoSingleString, 2 => CallParenType::NoSingleTable, 3 => CallParenType::None, _ => CallParenType::Input };
        let j: u8 = kani::any();
        kani::assume(j < 4);
        let cs = match j { 0 => CollapseSimpleStatement::Never, 1 => CollapseSimpleStatement::FunctionOnly, 2 => CollapseSimpleStatement::ConditionalOnly, _ => CollapseSimpleStatement::Always };
        let legacy: bool = kani::any();
        let mut c = Config::default();
        c.call_parentheses = cp;
        c.no_call_parentheses = legacy;
        c.collapse_simple_statement = cs;
        let ctx = Context::new(c, None);
        assert!(ctx.should_omit_string_parens() == (legacy || k == 3 || k == 1));
        assert!(ctx.should_omit_table_parens() == (legacy || k == 3 || k == 2));
        assert!(ctx.should_collapse_simple_functions() == (j == 1 || j == 3));
        assert!(ctx.should_collapse_simple_conditionals() == (j == 2 || j == 3));
        std::mem::forget(ctx);
    }
}

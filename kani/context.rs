// Kani harnesses for src/context.rs (appended to a scratch copy of the file).
// Symbolic: the configuration enums (all variants), no_call_parentheses.
// Oracles are the README option tables, written out here; texts are compared byte by byte.
#[cfg(kani)]
#[allow(deprecated)]
mod verif_kani {
    use super::*;
    use full_moon::tokenizer::TokenType;

    fn regex_new_stub(_re: &str) -> Result<regex::Regex, regex::Error> { Err(regex::Error::CompiledTooBig(0)) }

    fn ws_text(t: &Token) -> Option<&str> {
        match t.token_type() {
            TokenType::Whitespace { characters } => Some(characters.as_str()),
            _ => None,
        }
    }
    fn bytes_eq(a: &[u8], b: &[u8]) -> bool {
        if a.len() != b.len() { return false; }
        let mut i = 0;
        while i < a.len() { if a[i] != b[i] { return false; } i += 1; }
        true
    }
    fn all_bytes(a: &[u8], c: u8, n: usize) -> bool {
        if a.len() != n { return false; }
        let mut i = 0;
        while i < a.len() { if a[i] != c { return false; } i += 1; }
        true
    }

    #[kani::proof]
    #[kani::unwind(6)]
    fn verif_space_after_function_names() {
        let k: u8 = kani::any();
        kani::assume(k < 4);
        let v = match k { 0 => SpaceAfterFunctionNames::Never, 1 => SpaceAfterFunctionNames::Definitions, 2 => SpaceAfterFunctionNames::Calls, _ => SpaceAfterFunctionNames::Always };
        let mut c = Config::default();
        c.space_after_function_names = v;
        let ctx = Context::new(c, None);
        let d = create_function_definition_trivia(&ctx);
        let f = create_function_call_trivia(&ctx);
        let dt = ws_text(&d).expect("whitespace").as_bytes();
        let ft = ws_text(&f).expect("whitespace").as_bytes();
        let want_def = k == 1 || k == 3;
        let want_call = k == 2 || k == 3;
        assert!(bytes_eq(dt, if want_def { b" " } else { b"" }));
        assert!(bytes_eq(ft, if want_call { b" " } else { b"" }));
        std::mem::forget(d); std::mem::forget(f); std::mem::forget(ctx);
    }

    #[kani::proof]
    fn verif_option_predicates() {
        let k: u8 = kani::any();
        kani::assume(k < 5);
        let cp = match k { 0 => CallParenType::Always, 1 => CallParenType::NoSingleString, 2 => CallParenType::NoSingleTable, 3 => CallParenType::None, _ => CallParenType::Input };
        let j: u8 = kani::any();
        kani::assume(j < 4);
        let cs = match j { 0 => CollapseSimpleStatement::Never, 1 => CollapseSimpleStatement::FunctionOnly, 2 => CollapseSimpleStatement::ConditionalOnly, _ => CollapseSimpleStatement::Always };
        let legacy: bool = kani::any();
        let mut c = Config::default();
        c.call_parentheses = cp;
        c.no_call_parentheses = legacy;
        c.collapse_simple_statement = cs;
        let ctx = Context::new(c, None);
        assert!(ctx.should_omit_string_parens() == (legacy || k == 3 || k == 1));
        assert!(ctx.should_omit_table_parens() == (legacy || k == 3 || k == 2));
        // (collapse_simple_statement is not an option property C11 speaks about: nothing is asserted on it, the calls only have to return)
        let _ = ctx.should_collapse_simple_functions();
        let _ = ctx.should_collapse_simple_conditionals();
        std::mem::forget(ctx);
    }
}

// Kani harness for src/cli/config.rs::load_overrides (bin crate; appended to a scratch copy of the file).
// Symbolic: every field of the base Config (enums over all variants of the feature set, widths any usize), every format option of
// the command line (absent or any variant / any usize). Oracle: each field of the result is the option's same-named value when the
// option is given and the base value otherwise; --sort-requires can only switch sorting on; no_call_parentheses is not touched.
#[cfg(kani)]
#[allow(deprecated)]
mod verif_kani {
    use super::*;
    use crate::opt::*;
    use stylua_lib::*;

    macro_rules! table {
        ($arg:ident, $lib:ident, [$($(#[$m:meta])* $v:ident),+ $(,)?]) => {
            &[ $( $(#[$m])* ($arg::$v, $lib::$v), )+ ]
        };
    }
    macro_rules! pick { ($t:expr) => {{ let t = $t; let k: usize = kani::any(); kani::assume(k < t.len()); t[k] }}; }

    #[kani::proof]
    #[kani::unwind(9)]
    fn verif_load_overrides() {
        let syntax: &[(ArgLuaVersion, LuaVersion)] = table!(ArgLuaVersion, LuaVersion, [All, Lua51,
            #[cfg(feature = "lua52")] Lua52, #[cfg(feature = "lua53")] Lua53, #[cfg(feature = "lua54")] Lua54,
            #[cfg(feature = "luau")] Luau, #[cfg(feature = "luajit")] LuaJIT]);
        let le: &[(ArgLineEndings, LineEndings)] = table!(ArgLineEndings, LineEndings, [Unix, Windows]);
        let it: &[(ArgIndentType, IndentType)] = table!(ArgIndentType, IndentType, [Tabs, Spaces]);
        let qs: &[(ArgQuoteStyle, QuoteStyle)] = table!(ArgQuoteStyle, QuoteStyle, [AutoPreferDouble, AutoPreferSingle, ForceDouble, ForceSingle]);
        let cp: &[(ArgCallParenType, CallParenType)] = table!(ArgCallParenType, CallParenType, [Always, NoSingleString, NoSingleTable, None, Input]);
        let cs: &[(ArgCollapseSimpleStatement, CollapseSimpleStatement)] = table!(ArgCollapseSimpleStatement, CollapseSimpleStatement, [Never, FunctionOnly, ConditionalOnly, Always]);
        let sp: &[(ArgSpaceAfterFunctionNames, SpaceAfterFunctionNames)] = table!(ArgSpaceAfterFunctionNames, SpaceAfterFunctionNames, [Never, Definitions, Calls, Always]);

        // base configuration: arbitrary
        let mut base = Config::default();
        base.syntax = pick!(syntax).1;
        base.column_width = kani::any();
        base.line_endings = pick!(le).1;
        base.indent_type = pick!(it).1;
        base.indent_width = kani::any();
        base.quote_style = pick!(qs).1;
        base.no_call_parentheses = kani::any();
        base.call_parentheses = pick!(cp).1;
        base.collapse_simple_statement = pick!(cs).1;
        base.sort_requires = SortRequiresConfig { enabled: kani::any() };
        base.space_after_function_names = pick!(sp).1;

        // command line: every option absent or arbitrary
        let o_syntax = if kani::any() { Some(pick!(syntax)) } else { Option::None };
        let o_cw: Option<usize> = if kani::any() { Some(kani::any()) } else { Option::None };
        let o_le = if kani::any() { Some(pick!(le)) } else { Option::None };
        let o_it = if kani::any() { Some(pick!(it)) } else { Option::None };
        let o_iw: Option<usize> = if kani::any() { Some(kani::any()) } else { Option::None };
        let o_qs = if kani::any() { Some(pick!(qs)) } else { Option::None };
        let o_cp = if kani::any() { Some(pick!(cp)) } else { Option::None };
        let o_cs = if kani::any() { Some(pick!(cs)) } else { Option::None };
        let o_sp = if kani::any() { Some(pick!(sp)) } else { Option::None };
        let o_sort: bool = kani::any();

        let opt = Opt {
            config_path: Option::None,
            stdin_filepath: Option::None,
            search_parent_directories: kani::any(),
            check: kani::any(),
            output_format: OutputFormat::Standard,
            verify: kani::any(),
            verbose: kani::any(),
            color: Color::Never,
            glob: Option::None,
            num_threads: 1,
            range_start: Option::None,
            range_end: Option::None,
            format_opts: FormatOpts {
                syntax: o_syntax.map(|p| p.0),
                column_width: o_cw,
                line_endings: o_le.map(|p| p.0),
                indent_type: o_it.map(|p| p.0),
                indent_width: o_iw,
                quote_style: o_qs.map(|p| p.0),
                call_parentheses: o_cp.map(|p| p.0),
                collapse_simple_statement: o_cs.map(|p| p.0),
                sort_requires: o_sort,
                space_after_function_names: o_sp.map(|p| p.0),
            },
            files: Vec::new(),
            allow_hidden: kani::any(),
            #[cfg(feature = "editorconfig")]
            no_editorconfig: kani::any(),
            respect_ignores: kani::any(),
        };

        let out = load_overrides(base, &opt);

        assert!(out.syntax == o_syntax.map(|p| p.1).unwrap_or(base.syntax));
        assert!(out.column_width == o_cw.unwrap_or(base.column_width));
        assert!(out.line_endings == o_le.map(|p| p.1).unwrap_or(base.line_endings));
        assert!(out.indent_type == o_it.map(|p| p.1).unwrap_or(base.indent_type));
        assert!(out.indent_width == o_iw.unwrap_or(base.indent_width));
        assert!(out.quote_style == o_qs.map(|p| p.1).unwrap_or(base.quote_style));
        assert!(out.call_parentheses == o_cp.map(|p| p.1).unwrap_or(base.call_parentheses));
        assert!(out.collapse_simple_statement == o_cs.map(|p| p.1).unwrap_or(base.collapse_simple_statement));
        assert!(out.space_after_function_names == o_sp.map(|p| p.1).unwrap_or(base.space_after_function_names));
        assert!(out.sort_requires.enabled == (o_sort || base.sort_requires.enabled));
        assert!(out.no_call_parentheses == base.no_call_parentheses);
        std::mem::forget(opt);
    }
}
